//! Correspondence for `Model/Lzma2Writer.lean` (property C01): the real `LZMA2Writer` in fast mode against the model
//! `lzma2FastBytes` (request `lzma2w.fast`), BYTE FOR BYTE, for the history `write(all); finish()`; other write
//! partitions of the same data must give the same bytes when no `chunk_size` is set, and must round-trip always.
use crate::codec::{dict_class, lzma2_compress, lzma2_decompress, LzOpts};
use crate::util::*;
use serde_json::json;

/// one input of the form `unit * rep ++ tail` (so that multi-megabyte compressible inputs stay short on the wire)
pub struct W2Input {
    pub unit: Vec<u8>,
    pub rep: usize,
    pub tail: Vec<u8>,
    pub kind: &'static str,
}

impl W2Input {
    pub fn plain(kind: &'static str, data: Vec<u8>) -> Self {
        W2Input { unit: Vec::new(), rep: 0, tail: data, kind }
    }
    pub fn bytes(&self) -> Vec<u8> {
        let mut v = Vec::with_capacity(self.unit.len() * self.rep + self.tail.len());
        for _ in 0..self.rep {
            v.extend_from_slice(&self.unit);
        }
        v.extend_from_slice(&self.tail);
        v
    }
}

fn incompressible(r: &mut Rng, n: usize) -> Vec<u8> {
    r.bytes(n)
}

/// the strata of the task: empty / tiny / incompressible (stored chunks) / highly compressible beyond the
/// uncompressed chunk limit / mixed / `chunk_size` / preset dictionary
fn gen_case(r: &mut Rng, i: u64, big: bool, check: bool) -> (W2Input, LzOpts, Option<u64>) {
    let bt4 = i % 3 == 2;
    let dict: u32 = *r.pick(&[4096u32, 4096, 5000, 8192, 65536, 1 << 20]);
    let nice: u32 = *r.pick(&[8u32, 16, 32, 64, 273]);
    let depth: i32 = *r.pick(&[0i32, 0, 1, 48, -3]);
    let (lc, lp, pb) = *r.pick(&[(3u32, 0u32, 2u32), (0, 0, 0), (4, 0, 4), (0, 4, 2), (1, 3, 1), (2, 2, 3), (0, 0, 4)]);
    let mut lz = LzOpts { dict, lc, lp, pb, normal: false, nice, bt4, depth, preset: None };
    let mut chunk = None;
    // (`W2_ONLY=<k>` restricts an own validation run to one stratum)
    let stratum = std::env::var("W2_ONLY").ok().and_then(|s| s.parse::<u64>().ok()).unwrap_or(i % 10);
    let inp = match stratum {
        0 => {
            if r.chance(1, 3) {
                let n = r.range(0, 6) as usize;
                W2Input::plain("tiny", r.bytes(n))
            } else {
                // around the store-or-compress boundary `compressed_size + 2 < uncompressed_size`: short inputs whose
                // compressed size is within a few bytes of their length
                let n = r.range(6, 90) as usize;
                let k = *r.pick(&["lowent", "text", "runs", "periodic"]);
                let mut v = gen_data(r, k, n);
                let m = r.below(12) as usize;
                v.extend(r.bytes(m));
                // the shortest prefix the real writer compresses instead of storing, and the two lengths below it
                let first_lzma = (6..=v.len()).find(|&l| matches!(lzma2_compress(&v[..l], &lz, None, &[l], 0), Outcome::Ok(c) if c.first().map(|b| *b >= 0x80).unwrap_or(false)));
                if let Some(l) = first_lzma {
                    v.truncate(l - r.below(3) as usize);
                }
                W2Input::plain("tiny", v)
            }
        }
        1 => {
            let n = r.range(6, 3000) as usize;
            let k = *r.pick(&["text", "periodic", "runs", "lowent", "random"]);
            W2Input::plain("small", gen_data(r, k, n))
        }
        2 => {
            // incompressible: every chunk is stored; 1 .. several chunks
            if (check && i % 80 == 2) || (!check && r.chance(1, 3)) {
                // random data longer than a 1 MiB dictionary: 3-byte matches are frequent (dict / 2^24 per position),
                // so stored chunks end while the finder is one byte ahead (`LZMAEncoder::reset` adds `read_ahead + 1`)
                lz.dict = 1 << 20;
                lz.bt4 = false;
                let n = r.range(1_100_000, 1_500_000) as usize;
                return (W2Input::plain("random-ahead", incompressible(r, n)), lz, None);
            }
            let n = if big { r.range(60_000, 400_000) } else if check { r.range(1000, 80_000) } else { r.range(1000, 140_000) } as usize;
            W2Input::plain("random", incompressible(r, n))
        }
        3 => {
            // highly compressible, beyond LZMA2_UNCOMPRESSED_LIMIT (2 MiB - 273)
            let unit_len = *r.pick(&[1usize, 1, 2, 7, 300, 4096]);
            let unit = r.bytes(unit_len);
            // (inside `./check` only every fourth of these cases crosses the 2 MiB limit)
            let total = if big { r.range(2_090_000, 4_400_000) } else if check && i % 80 != 3 { r.range(70_000, 300_000) } else { r.range(2_090_000, 2_300_000) } as usize;
            let tail_len = r.range(0, 2000) as usize;
            W2Input { rep: total / unit_len, unit, tail: r.bytes(tail_len), kind: "compressible-2m" }
        }
        4 => {
            // mixed: compressible and incompressible stretches alternate (stored and LZMA chunks alternate,
            // state resets, read-ahead at a stored chunk)
            let n = if big { r.range(100_000, 700_000) } else if check { r.range(20_000, 90_000) } else { r.range(20_000, 150_000) } as usize;
            W2Input::plain("mixed", gen_data(r, "mixed", n))
        }
        5 | 6 => {
            // chunk_size: independent chunks (clamped to the dictionary size)
            // (one `write` call of less than the window - 330 KiB for a 4 KiB dictionary - never restarts; the
            // partitions with small calls do)
            let n = if big { r.range(300_000, 1_500_000) } else if check && i % 80 != 5 { r.range(20_000, 70_000) } else { r.range(100_000, 420_000) } as usize;
            lz.dict = *r.pick(&[4096u32, 4096, 8192, 65536]);
            chunk = Some(*r.pick(&[1u64, 4096, 5000, 70_000, 100_000, 300_000]));
            let k = *r.pick(&["text", "mixed", "random", "lowent", "periodic"]);
            W2Input::plain("chunked", gen_data(r, k, n))
        }
        7 | 8 => {
            // preset dictionary: shorter than / equal to / longer than the dictionary, data repeating it
            if r.chance(1, 3) {
                // dictionary size that is not a multiple of 16 (the reader rounds its buffer up) and a preset
                // dictionary around that size: writer and reader must agree on the position bits
                lz.dict = *r.pick(&[4097u32, 5000, 4104, 4111, 65537]);
                let (a, b, c) = *r.pick(&[(0u32, 0u32, 4u32), (0, 4, 0), (0, 4, 4), (4, 0, 4), (3, 0, 2)]);
                lz.lc = a;
                lz.lp = b;
                lz.pb = c;
            }
            let plen = match r.below(5) {
                4 => lz.dict as usize + r.range(1, 40) as usize,
                0 => r.range(1, 20) as usize,
                1 => r.range(20, 4000) as usize,
                2 => lz.dict as usize,
                _ => lz.dict as usize + r.range(1, 3000) as usize,
            };
            let pk = *r.pick(&["text", "random", "periodic"]);
            let preset = gen_data(r, pk, plen);
            let n = r.range(0, if big { 200_000 } else { 40_000 }) as usize;
            let mut data = Vec::new();
            while data.len() < n {
                if r.chance(1, 2) && !preset.is_empty() {
                    let a = r.below(preset.len() as u64) as usize;
                    let l = (r.range(1, 400) as usize).min(preset.len() - a);
                    data.extend_from_slice(&preset[a..a + l]);
                } else {
                    let l = r.range(1, 300) as usize;
                    let dk = *r.pick(&["text", "random", "runs"]);
                    data.extend(gen_data(r, dk, l));
                }
            }
            data.truncate(n);
            lz.preset = Some(preset);
            if r.chance(1, 4) {
                chunk = Some(*r.pick(&[4096u64, 70_000]));
            }
            W2Input::plain("preset", data)
        }
        _ => {
            let n = if big { r.range(20_000, 400_000) } else if check { r.range(3000, 50_000) } else { r.range(3000, 90_000) } as usize;
            let k = *r.pick(&["text", "periodic", "runs", "lowent", "code"]);
            W2Input::plain("medium", gen_data(r, k, n))
        }
    };
    (inp, lz, chunk)
}

pub fn request(lz: &LzOpts, chunk: Option<u64>, inp: &W2Input) -> String {
    let mut s = format!(
        "lzma2w.fast kind={} dict={} lc={} lp={} pb={} nice={} depth={} chunk={} preset={} ",
        if lz.bt4 { "bt4" } else { "hc4" },
        lz.dict,
        lz.lc,
        lz.lp,
        lz.pb,
        lz.nice,
        lz.depth.max(0),
        chunk.unwrap_or(0),
        hex(lz.preset.as_deref().unwrap_or(&[]))
    );
    if inp.rep > 0 {
        s.push_str(&format!("data={} rep={} tail={}", hex(&inp.unit), inp.rep, hex(&inp.tail)));
    } else {
        s.push_str(&format!("data={}", hex(&inp.tail)));
    }
    s
}

/// `n` cases; `big` selects the large sizes (own validation / thorough tier), `check` the bounded ones of the
/// quick tier of `./check C01`
pub fn run_lzma2w(rep: &mut Report, rng: &mut Rng, n: u64, big: bool, check: bool) {
    for i in 0..n {
        let mut r = rng.fork();
        let (inp, lz, chunk) = gen_case(&mut r, i, big, check);
        let data = inp.bytes();
        let detail = || json!({"stratum": "lzma2w", "kind": inp.kind, "opts": lz.json(), "chunk_size": chunk, "data_len": data.len(), "data_fnv": fnv(&data), "data_hex": if data.len() <= 300 { hex(&data) } else { String::new() }});
        rep.count(&format!("lzma2w.{}", inp.kind));
        rep.count(&format!("lzma2w.{}", if lz.bt4 { "bt4" } else { "hc4" }));
        // history of the model: one write call, then finish
        let one = lzma2_compress(&data, &lz, chunk, &[data.len()], 0);
        match &one {
            Outcome::Ok(c) => {
                // every fourth request also evaluates the hypotheses of `lzma2_fast_roundtrip_partial` on the model's
                // output (`checkChunks` of the framed events denotes the input, `encodeChunks` gives the same bytes);
                // a preset dictionary longer than a dictionary size that is no multiple of 16 is excluded there (the
                // reader keeps up to 15 bytes more of it than the writer, see the report)
                let long_preset = lz.preset.as_ref().map(|p| p.len() > lz.dict as usize && lz.dict % 16 != 0).unwrap_or(false);
                if i % 4 == 0 && data.len() <= 400_000 && !long_preset {
                    rep.model(format!("{} check=1", request(&lz, chunk, &inp)), format!("ok {} {} check=1", c.len(), fnv(c)));
                } else {
                    rep.model(request(&lz, chunk, &inp), format!("ok {} {}", c.len(), fnv(c)));
                }
                // the property itself
                match lzma2_decompress(c, lz.dict, lz.preset.as_deref(), &[65536], data.len() + 16) {
                    Outcome::Ok((out, used)) => {
                        if out != data || used != c.len() {
                            rep.fail("lzma2w-roundtrip", "LZMA2Writer (fast) output does not decode to the input / is not consumed exactly", detail());
                        }
                    }
                    other => rep.fail(&format!("lzma2w-read-{}", other.class()), &other.describe(), detail()),
                }
            }
            other => rep.fail(&format!("lzma2w-write-{}", other.class()), &other.describe(), detail()),
        }
        // other partitions of the same data
        if let Outcome::Ok(c) = &one {
            for k in 0..2 {
                let (style, parts) = gen_partition(&mut r, data.len());
                match lzma2_compress(&data, &lz, chunk, &parts, 0) {
                    Outcome::Ok(c2) => {
                        if chunk.is_none() {
                            if &c2 != c {
                                rep.fail("lzma2w-partition-dependent", &format!("without chunk_size the bytes depend on the write partition (style {style})"), detail());
                            }
                        } else {
                            rep.count(if &c2 == c { "lzma2w.chunked-partition-same" } else { "lzma2w.chunked-partition-differs" });
                            // with chunk_size the model takes the sizes of the write calls into account
                            let ps = parts.iter().map(|x| x.to_string()).collect::<Vec<_>>().join(",");
                            if !(check && k > 0) {
                            rep.model(format!("{} parts={ps}", request(&lz, chunk, &inp)), format!("ok {} {}", c2.len(), fnv(&c2)));
                            }
                            match lzma2_decompress(&c2, lz.dict, lz.preset.as_deref(), &[65536], data.len() + 16) {
                                Outcome::Ok((out, _)) if out == data => {}
                                other => rep.fail("lzma2w-roundtrip-partition", &format!("chunk_size + partition {style}: {}", other.class()), detail()),
                            }
                        }
                    }
                    other => rep.fail(&format!("lzma2w-write-{}", other.class()), &other.describe(), detail()),
                }
            }
        }
        rep.case(format!("lzma2w:{}:{}:{}:{}:{}", inp.kind, lz.bt4 as u8, dict_class(lz.dict), chunk.is_some() as u8, size_class(data.len())), !data.is_empty(), || detail());
    }
}
