//! C11: BCJ / Delta filters are exact inverses, match liblzma, and the Lean filter models
//! (Model/Filters.lean) compute the same bytes as the real filters.
use crate::util::*;
use liblzma::stream::{Filters, LzmaOptions, Stream};
use lzma_rust2::filter::bcj::{BCJReader, BCJWriter};
use lzma_rust2::filter::delta::{DeltaReader, DeltaWriter};
use serde_json::json;
use std::io::Write;

pub const ARCHS: &[&str] = &["x86", "ppc", "ia64", "arm", "armthumb", "sparc", "arm64", "riscv"];

pub fn align_of(a: &str) -> u32 {
    match a {
        "x86" => 1,
        "armthumb" | "riscv" => 2,
        "ia64" => 16,
        _ => 4,
    }
}

/// data dense in the branch instructions of `arch`
pub fn gen_arch_code(rng: &mut Rng, arch: &str, size: usize) -> Vec<u8> {
    let mut v = rng.bytes(size);
    let density = *rng.pick(&[2u64, 4, 16]);
    let mut i = 0;
    while i + 16 <= size {
        if rng.below(density) == 0 {
            match arch {
                "x86" => {
                    v[i] = if rng.chance(1, 2) { 0xE8 } else { 0xE9 };
                    v[i + 4] = *rng.pick(&[0x00u8, 0xFF, 0x00, 0xFF, 0x12]);
                    if rng.chance(1, 4) {
                        v[i + 1] = *rng.pick(&[0xE8u8, 0xE9, 0, 0xFF]);
                    }
                }
                "arm" => v[(i & !3) + 3] = 0xEB,
                "armthumb" => {
                    let j = i & !1;
                    v[j + 1] = 0xF0 | (rng.next() as u8 & 7);
                    v[j + 3] = 0xF8 | (rng.next() as u8 & 7);
                }
                "ppc" => {
                    let j = i & !3;
                    v[j] = 0x48 | (rng.next() as u8 & 3);
                    v[j + 3] = (v[j + 3] & 0xFC) | 1;
                }
                "sparc" => {
                    let j = i & !3;
                    if rng.chance(1, 2) {
                        v[j] = 0x40;
                        v[j + 1] &= 0x3F;
                    } else {
                        v[j] = 0x7F;
                        v[j + 1] |= 0xC0;
                    }
                }
                "arm64" => {
                    let j = i & !3;
                    if rng.chance(1, 2) {
                        v[j + 3] = 0x94 | (rng.next() as u8 & 3);
                    } else {
                        v[j + 3] = 0x90 | (rng.next() as u8 & 0x60);
                        if rng.chance(1, 2) {
                            v[j + 2] &= 0x03; // small immediates pass the range test more often
                            v[j + 1] = 0;
                        }
                    }
                }
                "ia64" => {
                    let j = i & !15;
                    v[j] = (v[j] & 0xE0) | *rng.pick(&[0x10u8, 0x11, 0x12, 0x13, 0x16, 0x17, 0x18, 0x19, 0x1C, 0x1D]);
                    // make slot opcodes look like branches: bits 37..40 = 5, bits 9..11 = 0 of each 41-bit slot
                    for slot in 0..3usize {
                        let bit_pos = 5 + slot * 41;
                        let mut instr: u128 = 0;
                        for k in 0..16 {
                            instr |= (v[j + k] as u128) << (8 * k);
                        }
                        let m = ((0xFu128 << 37) | (0x7u128 << 9)) << bit_pos;
                        instr = (instr & !m) | ((0x5u128 << 37) << bit_pos);
                        for k in 0..16 {
                            v[j + k] = (instr >> (8 * k)) as u8;
                        }
                    }
                }
                _ => {
                    // riscv
                    let j = i & !1;
                    match rng.below(4) {
                        3 => {
                            // words that look like the filter's own escaped forms (`auipc x2` / low 14 bits 0x3117 with
                            // high bits set, next word with bit 11 set): the decoder's special branches
                            v[j] = 0x17;
                            v[j + 1] = (v[j + 1] & 0xC0) | *rng.pick(&[0x31u8, 0x01, 0x11, 0x21, 0x31]);
                            if rng.chance(2, 3) { v[j + 3] |= *rng.pick(&[0x08u8, 0x20, 0x80, 0xF8]); }
                            if rng.chance(1, 2) { v[j + 5] |= 0x08; }
                        }
                        0 => {
                            v[j] = 0xEF;
                            v[j + 1] = (v[j + 1] & 0xF0) | *rng.pick(&[0x00u8, 0x02]);
                        }
                        1 => {
                            v[j] = 0x17 | (rng.next() as u8 & 0x80);
                            // pair with a load/jalr using the same register
                            let rd = ((v[j] as u32 >> 7) | ((v[j + 1] as u32 & 0x0F) << 1)) & 0x1F;
                            v[j + 4] = 0x03 | ((rng.next() as u8) & 0x60);
                            let rs1 = rd;
                            v[j + 5] = (v[j + 5] & 0x7F) | (((rs1 & 1) as u8) << 7);
                            v[j + 6] = (v[j + 6] & 0xF0) | ((rs1 >> 1) as u8 & 0x0F);
                        }
                        _ => {
                            v[j] = 0x17;
                            v[j + 1] &= 0xF0; // rd = x0 / x2 forms
                        }
                    }
                }
            }
        }
        i += rng.range(1, 9) as usize;
    }
    v
}

fn new_writer<W: Write>(arch: &str, w: W, start: usize) -> BCJWriter<W> {
    match arch {
        "x86" => BCJWriter::new_x86(w, start),
        "ppc" => BCJWriter::new_ppc(w, start),
        "ia64" => BCJWriter::new_ia64(w, start),
        "arm" => BCJWriter::new_arm(w, start),
        "armthumb" => BCJWriter::new_arm_thumb(w, start),
        "sparc" => BCJWriter::new_sparc(w, start),
        "arm64" => BCJWriter::new_arm64(w, start),
        _ => BCJWriter::new_riscv(w, start),
    }
}

fn new_reader<R: std::io::Read>(arch: &str, r: R, start: usize) -> BCJReader<R> {
    match arch {
        "x86" => BCJReader::new_x86(r, start),
        "ppc" => BCJReader::new_ppc(r, start),
        "ia64" => BCJReader::new_ia64(r, start),
        "arm" => BCJReader::new_arm(r, start),
        "armthumb" => BCJReader::new_arm_thumb(r, start),
        "sparc" => BCJReader::new_sparc(r, start),
        "arm64" => BCJReader::new_arm64(r, start),
        _ => BCJReader::new_riscv(r, start),
    }
}

pub fn real_encode(arch: &str, start: u32, data: &[u8]) -> Outcome<Vec<u8>> {
    guard(|| {
        let mut w = new_writer(arch, Vec::new(), start as usize);
        w.write_all(data)?;
        w.finish()
    })
}

pub fn real_decode(arch: &str, start: u32, enc: &[u8], sched: &[usize]) -> Outcome<Vec<u8>> {
    guard(|| {
        let mut r = new_reader(arch, enc, start as usize);
        read_all_sched(&mut r, sched, enc.len() + 16)
    })
}

/// liblzma's encoding of the same filter: raw encoder [bcj, lzma2] followed by raw decoder [lzma2]
pub fn reference_encode(arch: &str, start: u32, data: &[u8]) -> Result<Vec<u8>, String> {
    let opts = LzmaOptions::new_preset(0).map_err(|e| format!("{e:?}"))?;
    let props = start.to_le_bytes();
    let mut f = Filters::new();
    let r = match arch {
        "x86" => f.x86_properties(&props),
        "ppc" => f.powerpc_properties(&props),
        "ia64" => f.ia64_properties(&props),
        "arm" => f.arm_properties(&props),
        "armthumb" => f.arm_thumb_properties(&props),
        "sparc" => f.sparc_properties(&props),
        "arm64" => f.arm64_properties(&props),
        "delta" => f.delta_properties(&[(start - 1) as u8]),
        _ => f.riscv_properties(&props),
    };
    r.map_err(|e| format!("{e:?}"))?;
    f.lzma2(&opts);
    let enc = Stream::new_raw_encoder(&f).map_err(|e| format!("{e:?}"))?;
    let comp = crate::codec::reference::run(enc, data, data.len() * 2 + 4096)?;
    let mut f2 = Filters::new();
    f2.lzma2(&opts);
    let dec = Stream::new_raw_decoder(&f2).map_err(|e| format!("{e:?}"))?;
    crate::codec::reference::run(dec, &comp, data.len() + 4096)
}

/// E8/E9 every 1..5 bytes, operands with 00/FF bytes: exercises every prev_mask / prev_pos value
pub fn gen_x86_dense(r: &mut Rng, len: usize) -> Vec<u8> {
    let mut buf = r.bytes(len);
    let mut k = 0usize;
    while k < len {
        buf[k] = if r.chance(1, 2) { 0xE8 } else { 0xE9 };
        for j in 1..5 {
            if k + j < len && r.chance(2, 3) {
                buf[k + j] = *r.pick(&[0u8, 0xFF, 0, 0xFF, 0xE8]);
            }
        }
        k += r.range(1, 6) as usize;
    }
    buf
}

/// State-level correspondence: ONE `BCJFilter::code` call (hook) from an arbitrary state on buffers
/// dense in the architecture's opcodes, against `Filters.code` of the model: processed count, new `pos`,
/// new `prev_mask` (the x86 carry-over between calls) and the buffer must all agree.
pub fn bcj_steps(rep: &mut Report, rng: &mut Rng, n: u64) {
    for i in 0..n {
        let mut r = rng.fork();
        let ai = (i % 8) as usize;
        let arch = ARCHS[ai];
        let len = match r.below(4) {
            0 => r.range(0, 12) as usize,
            1 | 2 => r.range(5, 48) as usize,
            _ => r.range(48, 600) as usize,
        };
        let mut buf = r.bytes(len);
        if arch == "x86" {
            buf = gen_x86_dense(&mut r, len);
        } else if len >= 16 {
            let dense = gen_arch_code(&mut r, arch, len);
            buf = dense;
        }
        let enc = r.chance(1, 2);
        let a = align_of(arch) as usize;
        let pos = match r.below(4) {
            0 => 0usize,
            1 => (0xFFFF_FFF0usize / a) * a,
            _ => ((r.next() as u32 as usize) / a) * a,
        } + if arch == "x86" { 5 } else { 0 };
        let pm = if arch == "x86" { r.below(8) as u32 } else { 0 };
        let mut b = buf.clone();
        rep.count(&format!("step.{arch}"));
        match lzma_rust2::verif_hooks::bcj_code(ai as u8, enc, pos, pm, &mut b) {
            Some((processed, pos2, pm2)) => {
                rep.model(
                    format!("bcj.step arch={arch} enc={} pos={pos} pm={pm} in={}", enc as u8, hex(&buf)),
                    format!("ok {processed} {} {pm2} {}", pos2 as u64 % (1u64 << 32), fnv(&b)),
                );
            }
            None => rep.fail("bcj-hook-missing", "verif hook rejected the architecture index", json!({"arch": arch})),
        }
        rep.case(format!("step:{arch}:{}:{}", enc, size_class(len)), true, || json!({"arch": arch, "enc": enc, "pos": pos, "prev_mask": pm, "buf_hex": hex(&buf)}));
    }
}

pub fn run(rep: &mut Report, rng: &mut Rng, thorough: bool) {
    crate::bcj2::run(rep, rng, thorough);
    bcj_steps(rep, rng, if thorough { 40000 } else { 4000 });
    let per = if thorough { 400 } else { 40 };
    for (ai, arch) in ARCHS.iter().enumerate() {
        for i in 0..per {
            let mut r = rng.fork();
            let a = align_of(arch);
            let size = match r.below(6) {
                0 => r.range(0, 40) as usize,
                1 => r.range(4080, 4112) as usize,
                2 => r.range(8180, 8210) as usize,
                3 => r.range(100, 3000) as usize,
                _ => r.range(1, if thorough { 60000 } else { 12000 }) as usize,
            };
            let kind = if r.chance(3, 4) { "arch" } else { *r.pick(&["random", "code", "const", "text"]) };
            let data = if kind == "arch" { gen_arch_code(&mut r, arch, size) } else { gen_data(&mut r, kind, size) };
            let start: u32 = match r.below(6) {
                0 | 1 => 0,
                2 => a,
                3 => (0x7FFF_FF00u32 / a) * a,
                4 => (0xFFFF_F000u32 / a) * a,
                _ => ((r.next() as u32) / a) * a,
            };
            let sig = format!("bcj:{arch}:{kind}:{}:s{}", size_class(size), if start == 0 { "0".into() } else if start >= 0x7FFF_0000 { "hi".to_string() } else { "mid".to_string() });
            let detail = || json!({"filter": arch, "start": start, "data_kind": kind, "data_len": data.len(), "data_fnv": fnv(&data), "data_hex": if data.len() <= 96 { hex(&data) } else { "-".into() }, "case": i + 1000 * ai as u64});
            rep.count(&format!("arch.{arch}"));
            match real_encode(arch, start, &data) {
                Outcome::Ok(enc) => {
                    let (_, sched) = gen_partition(&mut r, enc.len().max(1));
                    let sched: Vec<usize> = sched.into_iter().filter(|&x| x > 0).take(50).collect();
                    match real_decode(arch, start, &enc, if sched.is_empty() { &[4096] } else { &sched }) {
                        Outcome::Ok(dec) => {
                            if dec != data {
                                rep.fail(&format!("bcj-roundtrip-mismatch:{arch}"), "BCJ decode(encode(x)) != x", detail());
                            }
                        }
                        other => rep.fail(&format!("bcj-decode-{}:{arch}", other.class()), &other.describe(), detail()),
                    }
                    match reference_encode(arch, start, &data) {
                        Ok(refenc) => {
                            if refenc != enc {
                                let pos = refenc.iter().zip(enc.iter()).position(|(x, y)| x != y);
                                let mut d = detail();
                                d["first_difference_at"] = json!(pos);
                                rep.fail(&format!("bcj-reference-mismatch:{arch}"), "encoded bytes differ from liblzma's", d);
                            }
                        }
                        Err(e) => rep.fail(&format!("bcj-reference-error:{arch}"), &e, detail()),
                    }
                    if data.len() <= 20000 {
                        rep.model(format!("bcj.code arch={arch} enc=1 start={start} in={}", hex(&data)), format!("ok {} {}", enc.len(), fnv(&enc)));
                        rep.model(format!("bcj.code arch={arch} enc=0 start={start} in={}", hex(&enc)), format!("ok {} {}", data.len(), fnv(&data)));
                    }
                }
                other => rep.fail(&format!("bcj-encode-{}:{arch}", other.class()), &other.describe(), detail()),
            }
            rep.case(sig, data.len() >= 16, || detail());
        }
    }
    // Delta
    for i in 0..(if thorough { 1500 } else { 150 }) {
        let mut r = rng.fork();
        let dist = match r.below(4) {
            0 => *r.pick(&[1u32, 2, 255, 256]),
            _ => r.range(1, 256) as u32,
        };
        let size = r.range(0, if thorough { 40000 } else { 3000 }) as usize;
        let kind = *r.pick(&["random", "periodic", "text", "runs"]);
        let data = gen_data(&mut r, kind, size);
        let detail = || json!({"filter": "delta", "distance": dist, "data_kind": kind, "data_len": data.len(), "data_fnv": fnv(&data), "case": i});
        rep.count("arch.delta");
        let (_, parts) = gen_partition(&mut r, data.len());
        let enc = guard(|| {
            let mut w = DeltaWriter::new(Vec::new(), dist as usize);
            write_parts(&mut w, &data, &parts, 0)?;
            Ok(w.into_inner())
        });
        match enc {
            Outcome::Ok(enc) => {
                let dec = guard(|| {
                    let mut rd = DeltaReader::new(enc.as_slice(), dist as usize);
                    read_all_sched(&mut rd, &[r.range(1, 5000) as usize], enc.len() + 16)
                });
                match dec {
                    Outcome::Ok(d) if d == data => {}
                    Outcome::Ok(_) => rep.fail("delta-roundtrip-mismatch", "Delta decode(encode(x)) != x", detail()),
                    other => rep.fail(&format!("delta-decode-{}", other.class()), &other.describe(), detail()),
                }
                match reference_encode("delta", dist, &data) {
                    Ok(refenc) if refenc == enc => {}
                    Ok(_) => rep.fail("delta-reference-mismatch", "Delta encoded bytes differ from liblzma's", detail()),
                    Err(e) => rep.fail("delta-reference-error", &e, detail()),
                }
                rep.model(format!("delta.enc dist={dist} in={}", hex(&data)), format!("ok {} {}", enc.len(), fnv(&enc)));
                rep.model(format!("delta.dec dist={dist} in={}", hex(&enc)), format!("ok {} {}", data.len(), fnv(&data)));
            }
            other => rep.fail(&format!("delta-encode-{}", other.class()), &other.describe(), detail()),
        }
        rep.case(format!("delta:d{}:{kind}:{}", if dist == 1 || dist == 256 { dist.to_string() } else { "mid".into() }, size_class(size)), size > 0, || detail());
    }
}
