//! C17: memory estimators vs. real heap usage (counting global allocator), memory limit of the .lzma reader.
use crate::codec::*;
use crate::util::*;
use lzma_rust2::*;
use serde_json::json;
use std::alloc::{GlobalAlloc, Layout, System};
use std::io::{Read, Write};
use std::sync::atomic::{AtomicUsize, Ordering};

pub struct Counting;
static CUR: AtomicUsize = AtomicUsize::new(0);
static PEAK: AtomicUsize = AtomicUsize::new(0);
/// log of large allocations (size >= 4096), only while LOGGING is set; fixed capacity, no allocation inside the allocator
static LOGGING: std::sync::atomic::AtomicBool = std::sync::atomic::AtomicBool::new(false);
static LOG_N: AtomicUsize = AtomicUsize::new(0);
static LOG: [AtomicUsize; 256] = [const { AtomicUsize::new(0) }; 256];

fn log_alloc(size: usize) {
    if size >= 4096 && LOGGING.load(Ordering::Relaxed) {
        let i = LOG_N.fetch_add(1, Ordering::Relaxed);
        if i < 256 {
            LOG[i].store(size, Ordering::Relaxed);
        }
    }
}

/// sizes of the allocations >= 4 KiB made while running `f` (sorted)
pub fn large_allocs<T>(f: impl FnOnce() -> T) -> (T, Vec<usize>) {
    LOG_N.store(0, Ordering::Relaxed);
    LOGGING.store(true, Ordering::Relaxed);
    let r = f();
    LOGGING.store(false, Ordering::Relaxed);
    let n = LOG_N.load(Ordering::Relaxed).min(256);
    let mut v: Vec<usize> = (0..n).map(|i| LOG[i].load(Ordering::Relaxed)).collect();
    v.sort();
    (r, v)
}

unsafe impl GlobalAlloc for Counting {
    unsafe fn alloc(&self, l: Layout) -> *mut u8 {
        let p = System.alloc(l);
        log_alloc(l.size());
        if !p.is_null() {
            let c = CUR.fetch_add(l.size(), Ordering::Relaxed) + l.size();
            PEAK.fetch_max(c, Ordering::Relaxed);
        }
        p
    }
    unsafe fn alloc_zeroed(&self, l: Layout) -> *mut u8 {
        let p = System.alloc_zeroed(l);
        log_alloc(l.size());
        if !p.is_null() {
            let c = CUR.fetch_add(l.size(), Ordering::Relaxed) + l.size();
            PEAK.fetch_max(c, Ordering::Relaxed);
        }
        p
    }
    unsafe fn dealloc(&self, p: *mut u8, l: Layout) {
        System.dealloc(p, l);
        CUR.fetch_sub(l.size(), Ordering::Relaxed);
    }
    unsafe fn realloc(&self, p: *mut u8, l: Layout, new: usize) -> *mut u8 {
        let q = System.realloc(p, l, new);
        log_alloc(new);
        if !q.is_null() {
            if new >= l.size() {
                let c = CUR.fetch_add(new - l.size(), Ordering::Relaxed) + new - l.size();
                PEAK.fetch_max(c, Ordering::Relaxed);
            } else {
                CUR.fetch_sub(l.size() - new, Ordering::Relaxed);
            }
        }
        q
    }
}

/// peak heap growth (bytes) while running `f`, relative to the level at entry
pub fn measure<T>(f: impl FnOnce() -> T) -> (T, usize) {
    let base = CUR.load(Ordering::Relaxed);
    PEAK.store(base, Ordering::Relaxed);
    let r = f();
    let peak = PEAK.load(Ordering::Relaxed);
    (r, peak.saturating_sub(base))
}

/// a sink that does not allocate
struct Null(u64);
impl Write for Null {
    fn write(&mut self, b: &[u8]) -> std::io::Result<usize> {
        self.0 += b.len() as u64;
        Ok(b.len())
    }
    fn flush(&mut self) -> std::io::Result<()> {
        Ok(())
    }
}

pub fn run(rep: &mut Report, rng: &mut Rng, thorough: bool) {
    let dicts: Vec<u32> = if thorough {
        vec![4096, 5000, 65536, 100_000, 1 << 20, (1 << 20) + 12345, 1 << 23, 1 << 24, 1 << 26, 3 << 25]
    } else {
        vec![4096, 65536, 1 << 20, (1 << 20) + 12345, 1 << 23]
    };
    let data = gen_data(rng, "mixed", 300_000);
    // encoder estimate
    for &dict in &dicts {
        for normal in [false, true] {
            for bt4 in [false, true] {
                for (lc, lp) in [(3u32, 0u32), (0, 0), (4, 0), (0, 4), (2, 2), (8, 4), (8, 0)] {
                    let o = LzOpts { dict, lc, lp, pb: 2, normal, nice: 64, bt4, depth: 0, preset: None };
                    let est_kib = o.to_opts().get_memory_usage() as u64;
                    let (res, peak) = measure(|| {
                        guard(|| {
                            if lc + lp <= 4 {
                                let mut w = LZMA2Writer::new(Null(0), LZMA2Options { lzma_options: o.to_opts(), chunk_size: None });
                                w.write_all(&data)?;
                                w.finish().map(|n| n.0)
                            } else {
                                // LZMA1 allows lc + lp up to 12
                                let mut w = LZMAWriter::new_no_header(Null(0), &o.to_opts(), true)?;
                                w.write_all(&data)?;
                                w.finish().map(|n| n.0)
                            }
                        })
                    });
                    let detail = || json!({"what": "encoder", "opts": o.json(), "estimate_kib": est_kib, "peak_bytes": peak, "peak_kib": peak / 1024});
                    rep.count("kind.encoder");
                    if lc + lp <= 4 {
                        let (_, allocs) = large_allocs(|| {
                            guard(|| {
                                let mut w = LZMA2Writer::new(Null(0), LZMA2Options { lzma_options: o.to_opts(), chunk_size: None });
                                w.write_all(&data[..1000])?;
                                w.finish().map(|n| n.0)
                            })
                        });
                        rep.model(
                            format!("mem.enc dict={dict} lc={lc} lp={lp} normal={} bt4={} nice=64 allocs=1", normal as u8, bt4 as u8),
                            format!("ok {est_kib} {}", allocs.iter().map(|x| x.to_string()).collect::<Vec<_>>().join(",")),
                        );
                    } else {
                        rep.model(format!("mem.enc dict={dict} lc={lc} lp={lp} normal={} bt4={}", normal as u8, bt4 as u8), format!("ok {est_kib}"));
                    }
                    if !matches!(res, Outcome::Ok(_)) {
                        rep.fail("mem-encoder-run", &res.describe(), detail());
                    } else if (peak as u64) > est_kib * 1024 {
                        rep.fail(&format!("mem-estimate-unsound:encoder:lclp{}", lc + lp), &format!("encoder peak {} KiB exceeds the estimate {} KiB", peak / 1024, est_kib), detail());
                    } else if est_kib * 1024 > 3 * peak as u64 + (2 << 20) {
                        rep.fail("mem-estimate-loose:encoder", &format!("encoder estimate {} KiB is more than 3x the real peak {} KiB + 2 MiB", est_kib, peak / 1024), detail());
                    }
                    rep.case(format!("enc:{}:{}:{}:lclp{}", dict_class(dict), normal, bt4, lc + lp), true, || detail());
                }
            }
        }
    }
    // the estimator alone (nothing is allocated) up to the largest dictionary the encoder accepts: its u32
    // arithmetic must not wrap (the model computes in unbounded naturals)
    for dict in [1u32 << 28, (1 << 29) - 1, 1 << 29, (1 << 29) + 1, 600 << 20, 700 << 20, 768 << 20] {
        for normal in [false, true] {
            for bt4 in [false, true] {
                for (lc, lp) in [(3u32, 0u32), (0, 4)] {
                    let o = LzOpts { dict, lc, lp, pb: 2, normal, nice: 64, bt4, depth: 0, preset: None };
                    let est_kib = o.to_opts().get_memory_usage() as u64;
                    rep.count("kind.encoder-estimate-only");
                    rep.model(format!("mem.enc dict={dict} lc={lc} lp={lp} normal={} bt4={}", normal as u8, bt4 as u8), format!("ok {est_kib}"));
                    if est_kib * 1024 < dict as u64 {
                        rep.fail("mem-estimate-unsound:encoder-huge-dict", &format!("the estimate {est_kib} KiB is smaller than the dictionary alone ({} KiB)", dict / 1024), json!({"what": "encoder estimate", "opts": o.json(), "estimate_kib": est_kib}));
                    }
                    rep.case(format!("enc-est:{}:{}:{}", dict >> 20, normal, bt4), true, || json!({"what": "encoder estimate only", "opts": o.json(), "estimate_kib": est_kib}));
                }
            }
        }
    }
    // one real construction at 512 MiB with BT4 (about 5.3 GiB of zeroed, untouched pages): peak vs estimate
    {
        let o = LzOpts { dict: 1 << 29, lc: 3, lp: 0, pb: 2, normal: true, nice: 64, bt4: true, depth: 0, preset: None };
        let est_kib = o.to_opts().get_memory_usage() as u64;
        let (res, peak) = measure(|| guard(|| LZMAWriter::new_no_header(Null(0), &o.to_opts(), true).map(|_| ())));
        let detail = || json!({"what": "encoder construction, 512 MiB dictionary, BT4", "opts": o.json(), "estimate_kib": est_kib, "peak_bytes": peak});
        rep.count("kind.encoder-huge");
        match res {
            Outcome::Ok(()) => {
                if (peak as u64) > est_kib * 1024 {
                    rep.fail("mem-estimate-unsound:encoder-huge-dict", &format!("encoder peak {} KiB exceeds the estimate {} KiB", peak / 1024, est_kib), detail());
                }
            }
            // an allocation failure of the sandbox is not a verdict on the estimator
            other => rep.notes.push(format!("512 MiB BT4 construction not measured: {}", other.describe())),
        }
        rep.case("enc-huge:512MiB:bt4".into(), true, || detail());
    }
    // decoder estimates
    let small = gen_data(rng, "text", 5000);
    for &dict in &dicts {
        for (lc, lp) in [(3u32, 0u32), (0, 0), (8, 4), (4, 0), (0, 4)] {
            // LZMA
            let est = lzma_get_memory_usage(dict, lc, lp).unwrap_or(0) as u64;
            let o = LzOpts { dict: dict.min(1 << 20), lc, lp, pb: 2, normal: false, nice: 32, bt4: false, depth: 0, preset: None };
            if let Outcome::Ok(comp) = lzma_compress(&small, &o, LzmaFmt::RawMarker, &[small.len()]) {
                let (res, peak) = measure(|| {
                    guard(|| {
                        let mut r = LZMAReader::new(comp.as_slice(), u64::MAX, lc, lp, 2, dict, None)?;
                        let mut buf = [0u8; 4096];
                        let mut n = 0usize;
                        loop {
                            let k = r.read(&mut buf)?;
                            if k == 0 {
                                break;
                            }
                            n += k;
                        }
                        Ok(n)
                    })
                });
                let detail = || json!({"what": "lzma decoder", "dict": dict, "lc": lc, "lp": lp, "estimate_kib": est, "peak_bytes": peak});
                rep.count("kind.lzma-decoder");
                rep.model(format!("mem.lzmadec dict={dict} lc={lc} lp={lp}"), format!("ok {est}"));
                if !matches!(res, Outcome::Ok(_)) {
                    rep.fail("mem-decoder-run", &res.describe(), detail());
                } else if (peak as u64) > est * 1024 {
                    rep.fail("mem-estimate-unsound:lzma-decoder", &format!("LZMA decoder peak {} KiB exceeds the estimate {} KiB", peak / 1024, est), detail());
                } else if est * 1024 > 3 * peak as u64 + (1 << 20) {
                    rep.fail("mem-estimate-loose:lzma-decoder", &format!("estimate {} KiB vs peak {} KiB", est, peak / 1024), detail());
                }
                rep.case(format!("lzmadec:{}:lclp{}", dict_class(dict), lc + lp), true, || detail());
            }
        }
        // LZMA2
        let est2 = lzma2_get_memory_usage(dict) as u64;
        let o = LzOpts { dict: dict.min(1 << 20), lc: 3, lp: 0, pb: 2, normal: false, nice: 32, bt4: false, depth: 0, preset: None };
        if let Outcome::Ok(comp) = lzma2_compress(&small, &o, None, &[small.len()], 0) {
            let (res, peak) = measure(|| {
                guard(|| {
                    let mut r = LZMA2Reader::new(comp.as_slice(), dict, None);
                    let mut buf = [0u8; 4096];
                    let mut n = 0usize;
                    loop {
                        let k = r.read(&mut buf)?;
                        if k == 0 {
                            break;
                        }
                        n += k;
                    }
                    Ok(n)
                })
            });
            let detail = || json!({"what": "lzma2 decoder", "dict": dict, "estimate_kib": est2, "peak_bytes": peak});
            rep.count("kind.lzma2-decoder");
            rep.model(format!("mem.lzma2dec dict={dict}"), format!("ok {est2}"));
            if !matches!(res, Outcome::Ok(_)) {
                rep.fail("mem-decoder-run", &res.describe(), detail());
            } else if (peak as u64) > est2 * 1024 {
                rep.fail("mem-estimate-unsound:lzma2-decoder", &format!("LZMA2 decoder peak {} KiB exceeds the estimate {} KiB", peak / 1024, est2), detail());
            } else if est2 * 1024 > 3 * peak as u64 + (1 << 20) {
                rep.fail("mem-estimate-loose:lzma2-decoder", &format!("estimate {} KiB vs peak {} KiB", est2, peak / 1024), detail());
            }
            rep.case(format!("lzma2dec:{}", dict_class(dict)), true, || detail());
        }
    }
    // LZMA2 reader on incompressible input (stored chunks) and mixed input, read with LARGE caller buffers (the
    // caller's buffer is allocated outside the measurement): whatever scratch space a read call uses counts
    for &dict in &dicts {
        if dict > (1 << 24) {
            continue;
        }
        let est2 = lzma2_get_memory_usage(dict) as u64;
        for kind in ["random", "mixed"] {
            let data = gen_data(rng, kind, 150_000);
            let o = LzOpts { dict: dict.min(1 << 20), lc: 3, lp: 0, pb: 2, normal: false, nice: 32, bt4: false, depth: 0, preset: None };
            let Outcome::Ok(comp) = lzma2_compress(&data, &o, None, &[data.len()], 0) else { continue };
            for bufsize in [65536usize, 1 << 20] {
                let mut buf = vec![0u8; bufsize];
                let (res, peak) = measure(|| {
                    guard(|| {
                        let mut r = LZMA2Reader::new(comp.as_slice(), dict, None);
                        let mut n = 0usize;
                        loop {
                            let k = r.read(&mut buf)?;
                            if k == 0 {
                                break;
                            }
                            n += k;
                        }
                        Ok(n)
                    })
                });
                let detail = || json!({"what": "lzma2 decoder, large reads", "dict": dict, "data_kind": kind, "read_buffer": bufsize, "estimate_kib": est2, "peak_bytes": peak});
                rep.count("kind.lzma2-decoder-large-reads");
                if !matches!(res, Outcome::Ok(n) if n == data.len()) {
                    rep.fail("mem-decoder-run", &res.describe(), detail());
                } else if (peak as u64) > est2 * 1024 {
                    rep.fail("mem-estimate-unsound:lzma2-decoder", &format!("LZMA2 decoder peak {} KiB exceeds the estimate {} KiB ({kind} input, {bufsize}-byte reads)", peak / 1024, est2), detail());
                }
                rep.case(format!("lzma2dec-large:{}:{kind}:{bufsize}", dict_class(dict)), true, || detail());
            }
        }
    }
    // LZMA reader with a preset dictionary and a declared size: the window is sized by min(dict, size + preset)
    for &dict in &dicts {
        if dict > (1 << 23) {
            continue;
        }
        for (lc, lp) in [(3u32, 0u32), (0, 4)] {
            let preset = gen_data(rng, "text", dict as usize);
            let ulen = (dict as usize).saturating_sub(4096).max(100);
            let data = gen_data(rng, "text", ulen);
            let mut o = LzOpts { dict, lc, lp, pb: 2, normal: false, nice: 32, bt4: false, depth: 0, preset: Some(preset.clone()) };
            o.dict = dict;
            let est = lzma_get_memory_usage(dict, lc, lp).unwrap_or(0) as u64;
            if let Outcome::Ok(comp) = lzma_compress(&data, &o, LzmaFmt::RawSize, &[data.len()]) {
                let (res, peak) = measure(|| {
                    guard(|| {
                        let mut r = LZMAReader::new(comp.as_slice(), data.len() as u64, lc, lp, 2, dict, Some(&preset))?;
                        let mut buf = [0u8; 4096];
                        let mut n = 0usize;
                        loop {
                            let k = r.read(&mut buf)?;
                            if k == 0 {
                                break;
                            }
                            n += k;
                        }
                        Ok(n)
                    })
                });
                let detail = || json!({"what": "lzma decoder with preset dictionary and declared size", "dict": dict, "lc": lc, "lp": lp, "preset_len": preset.len(), "declared_size": data.len(), "estimate_kib": est, "peak_bytes": peak});
                rep.count("kind.lzma-decoder-preset");
                match res {
                    Outcome::Ok(n) if n == data.len() => {
                        if (peak as u64) > est * 1024 {
                            rep.fail("mem-estimate-unsound:lzma-decoder-preset", &format!("LZMA decoder (preset dictionary, declared size) peak {} KiB exceeds the estimate {} KiB", peak / 1024, est), detail());
                        }
                    }
                    other => rep.fail("mem-decoder-run", &other.describe(), detail()),
                }
                rep.case(format!("lzmadec-preset:{}:lclp{}", dict_class(dict), lc + lp), true, || detail());
            }
        }
    }
    // LZMA2 with independent chunks: every chunk re-creates encoder state / re-sends the properties
    for &dict in &dicts {
        if dict > (1 << 20) {
            continue;
        }
        for (lc, lp) in [(3u32, 0u32), (0, 4), (4, 0)] {
            let o = LzOpts { dict, lc, lp, pb: 2, normal: false, nice: 32, bt4: false, depth: 0, preset: None };
            let est_kib = o.to_opts().get_memory_usage() as u64;
            let chunk = (dict as u64).max(65536);
            let mut comp = Vec::new();
            let (res, peak) = measure(|| {
                guard(|| {
                    let mut opts = LZMA2Options { lzma_options: o.to_opts(), chunk_size: None };
                    opts.set_chunk_size(std::num::NonZeroU64::new(chunk));
                    let mut w = LZMA2Writer::new(Vec::new(), opts);
                    // (independent chunks start between the writer's internal window fills: write in pieces)
                    for piece in data.chunks(40_000) {
                        w.write_all(piece)?;
                    }
                    w.finish()
                })
            });
            let detail = || json!({"what": "lzma2 encoder with chunk_size", "opts": o.json(), "chunk_size": chunk, "estimate_kib": est_kib, "peak_bytes": peak});
            rep.count("kind.encoder-chunked");
            match res {
                Outcome::Ok(c) => {
                    // the output Vec (<= input size here) is part of the measured peak: allow for it
                    if (peak as u64) > est_kib * 1024 + c.capacity() as u64 {
                        rep.fail("mem-estimate-unsound:encoder-chunked", &format!("LZMA2 encoder with chunk_size: peak {} KiB (output buffer {} KiB) exceeds the estimate {} KiB", peak / 1024, c.capacity() / 1024, est_kib), detail());
                    }
                    comp = c;
                }
                other => rep.fail("mem-encoder-run", &other.describe(), detail()),
            }
            rep.case(format!("enc-chunked:{}:lclp{}", dict_class(dict), lc + lp), true, || detail());
            // the reader on that stream: properties are re-sent with every independent chunk
            if !comp.is_empty() {
                let est2 = lzma2_get_memory_usage(dict) as u64;
                let (res, peak) = measure(|| {
                    guard(|| {
                        let mut r = LZMA2Reader::new(comp.as_slice(), dict, None);
                        let mut buf = [0u8; 4096];
                        let mut n = 0usize;
                        loop {
                            let k = r.read(&mut buf)?;
                            if k == 0 {
                                break;
                            }
                            n += k;
                        }
                        Ok(n)
                    })
                });
                let detail = || json!({"what": "lzma2 decoder on a stream with several property resets", "dict": dict, "lc": lc, "lp": lp, "estimate_kib": est2, "peak_bytes": peak});
                rep.count("kind.lzma2-decoder-props-reset");
                if !matches!(res, Outcome::Ok(_)) {
                    rep.fail("mem-decoder-run", &res.describe(), detail());
                } else if (peak as u64) > est2 * 1024 {
                    rep.fail("mem-estimate-unsound:lzma2-decoder-props-reset", &format!("LZMA2 decoder peak {} KiB exceeds the estimate {} KiB on a stream that re-sends its properties", peak / 1024, est2), detail());
                }
                rep.case(format!("lzma2dec-reset:{}:lclp{}", dict_class(dict), lc + lp), true, || detail());
            }
        }
    }
    // memory limit of the .lzma reader: limit = need-1, need, need+1
    for i in 0..(if thorough { 400 } else { 80 }) {
        let dict = *rng.pick(&dicts);
        let props = rng.below(225) as u8;
        let need = match lzma_get_memory_usage_by_props(dict, props) {
            Ok(n) => n,
            Err(_) => continue,
        };
        let mut hdr = vec![props];
        hdr.extend_from_slice(&dict.to_le_bytes());
        hdr.extend_from_slice(&u64::MAX.to_le_bytes());
        hdr.extend_from_slice(&[0, 0, 0, 0, 0]);
        for limit in [need.saturating_sub(1), need, need.saturating_add(1)] {
            let (res, peak) = measure(|| guard(|| LZMAReader::new_mem_limit(hdr.as_slice(), limit, None).map(|_| ())));
            let detail = || json!({"what": "mem limit", "dict": dict, "props": props, "need_kib": need, "limit_kib": limit, "peak_bytes": peak, "case": i});
            rep.count("kind.memlimit");
            match (&res, limit < need) {
                (Outcome::Err(std::io::ErrorKind::OutOfMemory, _), true) => {
                    if peak > 4096 {
                        rep.fail("mem-limit-allocates-before-check", &format!("{} bytes were allocated before the limit check failed", peak), detail());
                    }
                }
                (_, true) => rep.fail("mem-limit-not-enforced", &format!("limit {} KiB < need {} KiB but constructor returned {}", limit, need, res.describe()), detail()),
                (Outcome::Ok(()), false) => {}
                (other, false) => rep.fail("mem-limit-too-strict", &format!("limit {} KiB >= need {} KiB but constructor returned {}", limit, need, other.describe()), detail()),
            }
            rep.evaluations += 1;
        }
    }
}
