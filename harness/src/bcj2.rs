//! BCJ2: a Rust port of the MODEL encoder (lean/LzmaVerif/Model/Bcj2.lean `encode`, proved to be inverted by
//! the model decoder for every input and every decision function).  The port is checked against the model on
//! every run (`bcj2.enc` requests), the real `BCJ2Reader` must return the original data from its output under
//! arbitrary splits of the four streams, and must agree with the model decoder on damaged streams.
use crate::util::*;
use lzma_rust2::filter::bcj2::BCJ2Reader;
use serde_json::json;

struct Enc { low: u64, range: u32, cache_size: u64, cache: u8, out: Vec<u8> }
impl Enc {
    fn new() -> Self { Enc { low: 0, range: 0xFFFF_FFFF, cache_size: 1, cache: 0, out: vec![] } }
    fn shift_low(&mut self) {
        let carry = (self.low >> 32) as u8;
        if carry != 0 || self.low < 0xFF00_0000 {
            self.out.push(self.cache.wrapping_add(carry));
            for _ in 0..self.cache_size - 1 {
                self.out.push(0xFFu8.wrapping_add(carry));
            }
            self.cache = (self.low >> 24) as u8;
            self.cache_size = 1;
        } else {
            self.cache_size += 1;
        }
        self.low = (self.low & 0x00FF_FFFF) << 8;
    }
    fn bit(&mut self, p: &mut u16, bit: bool) {
        let bound = (self.range >> 11) * *p as u32;
        if bit {
            self.low += bound as u64;
            self.range -= bound;
            *p -= *p >> 5;
        } else {
            self.range = bound;
            *p += (2048 - *p) >> 5;
        }
        if self.range < (1 << 24) {
            self.range <<= 8;
            self.shift_low();
        }
    }
    fn finish(mut self) -> Vec<u8> {
        for _ in 0..5 {
            self.shift_low();
        }
        self.out
    }
}

fn is_op(prev: u8, b: u8) -> bool {
    (b & 0xFE) == 0xE8 || (prev == 0x0F && (b & 0xF0) == 0x80)
}

/// (main, call, jump, rc); opcode number k is converted iff `convert(k)` and four bytes follow it
pub fn encode(convert: &dyn Fn(usize) -> bool, data: &[u8]) -> [Vec<u8>; 4] {
    let (mut main, mut call, mut jump) = (vec![], vec![], vec![]);
    let mut e = Enc::new();
    let mut probs = [1024u16; 258];
    let (mut prev, mut ip, mut k, mut i) = (0u8, 0u32, 0usize, 0usize);
    while i < data.len() {
        let b = data[i];
        main.push(b);
        if !is_op(prev, b) {
            prev = b;
            ip = ip.wrapping_add(1);
            i += 1;
            continue;
        }
        let idx = if b == 0xE8 { 2 + prev as usize } else if b == 0xE9 { 1 } else { 0 };
        let ip1 = ip.wrapping_add(1);
        if i + 4 < data.len() && convert(k) {
            e.bit(&mut probs[idx], true);
            let ip2 = ip1.wrapping_add(4);
            let rel = u32::from_le_bytes([data[i + 1], data[i + 2], data[i + 3], data[i + 4]]);
            let abs = rel.wrapping_add(ip2);
            if b == 0xE8 { call.extend(abs.to_be_bytes()) } else { jump.extend(abs.to_be_bytes()) }
            prev = data[i + 4];
            ip = ip2;
            i += 5;
        } else {
            e.bit(&mut probs[idx], false);
            prev = b;
            ip = ip1;
            i += 1;
        }
        k += 1;
    }
    [main, call, jump, e.finish()]
}

/// delivers 1..=max bytes per read call
struct Pieces { data: Vec<u8>, pos: usize, sizes: Vec<usize>, i: usize, intr: usize, calls: usize }
impl std::io::Read for Pieces {
    fn read(&mut self, buf: &mut [u8]) -> std::io::Result<usize> {
        // `intr = k > 0`: every k-th call of this stream reports Interrupted (a retry gets the data)
        self.calls += 1;
        if self.intr > 0 && self.calls % self.intr == 0 {
            return Err(std::io::Error::new(std::io::ErrorKind::Interrupted, "injected interrupt"));
        }
        let left = self.data.len() - self.pos;
        if left == 0 || buf.is_empty() {
            return Ok(0);
        }
        let want = if self.sizes.is_empty() { left } else { self.i += 1; self.sizes[(self.i - 1) % self.sizes.len()] };
        let n = want.max(1).min(left).min(buf.len());
        buf[..n].copy_from_slice(&self.data[self.pos..self.pos + n]);
        self.pos += n;
        Ok(n)
    }
}

pub fn real_decode(streams: &[Vec<u8>; 4], size: u64, sizes: &[usize], read_sched: &[usize]) -> Outcome<Vec<u8>> {
    real_decode_intr(streams, size, sizes, read_sched, [0; 4])
}

/// as `real_decode`, stream `k` reporting `Interrupted` on every `intr[k]`-th read call (0 = never)
pub fn real_decode_intr(streams: &[Vec<u8>; 4], size: u64, sizes: &[usize], read_sched: &[usize], intr: [usize; 4]) -> Outcome<Vec<u8>> {
    guard(|| {
        let inputs: Vec<Pieces> = streams.iter().enumerate().map(|(k, s)| Pieces { data: s.clone(), pos: 0, sizes: if k == 0 && sizes.len() > 1 { vec![] } else { sizes.to_vec() }, i: k, intr: intr[k], calls: 0 }).collect();
        let mut r = BCJ2Reader::new(inputs, size);
        read_all_sched(&mut r, read_sched, size as usize + 16)
    })
}

fn gen_code(r: &mut Rng, len: usize) -> Vec<u8> {
    let mut v = r.bytes(len);
    let mut i = 0;
    while i < len {
        match r.below(5) {
            0 => v[i] = 0xE8,
            1 => v[i] = 0xE9,
            2 => { v[i] = 0x0F; if i + 1 < len { v[i + 1] = 0x80 | (r.next() as u8 & 0x0F); } }
            _ => {}
        }
        if r.chance(1, 3) {
            for j in 1..5 {
                if i + j < len { v[i + j] = *r.pick(&[0u8, 0xFF, 0x7F, 0x80]); }
            }
        }
        i += r.range(1, 7) as usize;
    }
    v
}

pub fn run(rep: &mut Report, rng: &mut Rng, thorough: bool) {
    for i in 0..(if thorough { 3000 } else { 300 }) {
        let mut r = rng.fork();
        let len = match r.below(4) { 0 => r.range(0, 12), 1 => r.range(12, 80), 2 => r.range(80, 600), _ => r.range(600, if thorough { 600_000 } else { 9000 }) } as usize;
        let data = gen_code(&mut r, len);
        let conv: Vec<u8> = match r.below(4) { 0 => vec![1], 1 => vec![0], _ => (0..r.range(1, 9)).map(|_| r.below(2) as u8).collect() };
        let c2 = conv.clone();
        let s = encode(&move |k| c2[k % c2.len()] != 0, &data);
        rep.count("bcj2.encoded");
        let detail = || json!({"filter": "bcj2", "data_len": data.len(), "data_hex": if data.len() <= 120 { hex(&data) } else { format!("fnv:{}", fnv(&data)) }, "convert": conv, "stream_lens": s.iter().map(|x| x.len()).collect::<Vec<_>>(), "case": i});
        if data.len() <= 3000 {
            rep.model(format!("bcj2.enc conv={} in={}", hex(&conv), hex(&data)), format!("ok {} {} {} {}", hex(&s[0]), hex(&s[1]), hex(&s[2]), hex(&s[3])));
        }
        // the real reader on the encoding, streams delivered in pieces that are not multiples of four
        for sizes in [vec![], vec![5usize], vec![1, 2, 3], vec![7, 1], vec![4096]] {
            let sched = [*r.pick(&[1usize, 3, 5, 7, 4096, 70000])];
            match real_decode(&s, data.len() as u64, &sizes, &sched) {
                Outcome::Ok(out) if out == data => {}
                Outcome::Ok(_) => rep.fail("bcj2-roundtrip-mismatch", &format!("BCJ2Reader returned different bytes (stream pieces {:?}, read size {})", sizes, sched[0]), detail()),
                other => rep.fail(&format!("bcj2-decode-{}", other.class()), &format!("{} (stream pieces {:?})", other.describe(), sizes), detail()),
            }
            rep.evaluations += 1;
        }
        // damaged streams: model decoder and real reader must agree (verdict, error kind, bytes)
        if data.len() <= 600 && !data.is_empty() {
            for _ in 0..4 {
                let mut m = s.clone();
                let which = r.below(4) as usize;
                let mut size = data.len() as u64;
                match r.below(5) {
                    0 if !m[which].is_empty() => { let p = r.below(m[which].len() as u64) as usize; m[which][p] ^= 1 << r.below(8); }
                    1 if !m[which].is_empty() => { let p = r.below(m[which].len() as u64) as usize; m[which].truncate(p); }
                    2 => m[which].push(r.next() as u8),
                    3 => size = size + 1,
                    _ => size = size.saturating_sub(1),
                }
                let o = real_decode(&m, size, &[], &[4096]);
                let exp = match &o {
                    Outcome::Ok(out) => format!("ok {} {}", out.len(), fnv(out)),
                    Outcome::Err(k, msg) => format!("err {}", if *k == std::io::ErrorKind::UnexpectedEof { "UnexpectedEof".to_string() } else if msg.contains("error:3") { "ShortAddr".to_string() } else if msg.contains("error:4") || msg.contains("error:5") { "NotFinished".to_string() } else { "DecodeFail".to_string() }),
                    Outcome::Panic(p) => { rep.fail("bcj2-panic", p, detail()); "panic".into() }
                };
                let hx = |v: &Vec<u8>| if v.is_empty() { "-".to_string() } else { hex(v) };
                rep.model(format!("bcj2.dec main={} call={} jump={} rc={} size={}", hx(&m[0]), hx(&m[1]), hx(&m[2]), hx(&m[3]), size), exp);
            }
        }
        rep.case(format!("bcj2:{}:conv{}", size_class(len), conv.len().min(3)), len >= 5, || detail());
    }
}
