"""Per-property configuration of ./check: Lean modules to rebuild, property theorems to audit."""

HOOK_COMMITS = ["3cf3453", "b6342e8", "9141494", "43bebf2"]

NOT_APPLICABLE = {}

PROPS = {
    "C02": {
        "id": "C02",
        "level_text": "Lean theorems (all dictionary sizes, all values < 2^63): LZIP header byte announces the smallest representable dictionary >= the encoder's (lzipDict), XZ multibyte integers round-trip with the predicted size (multibyte_rt), LZMA2 dictionary property is minimal and sufficient (lzma2DictProp); witness theorem against the pinned rounding. The model functions are tied to the code by running both on the same requests on every check; block/member splitting, filter chains and the payload codec are covered by the round-trip oracle on the real writers/readers (search component), their theorems are growth items.",
        "level_note": "Trusted: Lean kernel (axioms propext, Classical.choice, Quot.sound only), the hand-written models of encode_dict_size/decode_dict_size/multibyte integers/LZMA2 dictionary property (correspondence sampled: all 256 header bytes, all property boundaries, random values), tools/extract_consts.py, harness.",
        "technique": "Lean 4 proof + differential correspondence (lzdriver vs hooks) + round-trip oracle",
        "lean_modules": ["LzmaVerif.Props.C02"],
        "theorems": [
            "LzmaVerif.Props.C02.lzipDict",
            "LzmaVerif.Props.C02.lzipDictBuggy_witness",
            "LzmaVerif.Props.C02.multibyte_rt",
            "LzmaVerif.Props.C02.multibyte_refuses",
            "LzmaVerif.Props.C02.lzma2DictProp",
        ],
        "trusted_base": [],
        "assumptions": [],
    },
    "C10": {
        "id": "C10",
        "engine": "vhmt",
        "level_text": "Lean theorems over a labelled transition system of the work queue (coordinator pushing n units then closing, k workers looping on steal), for ALL n, k and ALL schedules: every terminal state has all workers exited (drop_releases_all_threads), every schedule is at most 10n+8k+5 steps long (every_schedule_is_finite), the worker count is clamped to [1,256]; witness schedule against the pinned close(). The model is tied to the code by a translator: the order of synchronisation operations of push/close/steal is re-extracted from src/work_queue.rs on every run and skeleton_matches is re-proved against it. The real MT readers/writers are additionally run under shuttle (random + PCT schedulers) with drops at several points; shuttle reports any execution in which a thread stays blocked.",
        "level_note": "Trusted: Lean kernel; tools/extract_sync.py (pattern-based, ~100 lines); the LTS is a hand transcription of the extracted skeleton (atomicity of push_back+unlock merged); sequential consistency (weak-memory behaviours are outside both the model and shuttle); the mpsc result channel and Drop glue are covered by the shuttle search only.",
        "technique": "Lean 4 proof (inductive invariant + termination measure over an LTS) + source-skeleton translator + shuttle schedule exploration",
        "lean_modules": ["LzmaVerif.Props.C10"],
        "theorems": [
            "LzmaVerif.Props.C10.skeleton_matches",
            "LzmaVerif.Props.C10.drop_releases_all_threads",
            "LzmaVerif.Props.C10.every_schedule_is_finite",
            "LzmaVerif.Props.C10.pinned_close_loses_wakeup",
            "LzmaVerif.Props.C10.worker_bound",
        ],
        "trusted_base": [
            "tools/extract_sync.py: translator of the synchronisation skeleton of work_queue.rs (regenerated on every run; skeleton_matches is re-proved against it)",
            "shuttle 0.9 runtime (sequentially consistent schedules only) for the search component",
        ],
        "assumptions": ["sequential consistency of the mutex/condvar/atomic operations (shuttle and the Lean LTS both assume it)"],
    },
    "C07": {
        "id": "C07",
        "lean_modules": ["LzmaVerif.Props.C07"],
        "theorems": [
            "LzmaVerif.Props.C07.bcj_writer_partition_free",
            "LzmaVerif.Props.C07.bcj_reader_schedule_free",
            "LzmaVerif.Props.C07.zero_length_reads_are_harmless",
            "LzmaVerif.Props.C07.delta_partition_free",
            "LzmaVerif.Props.C07.container_cutting_partition_free",
            "LzmaVerif.BcjStream.bcj_restartable",
        ],
        "level_text": "Lean theorems for every input, partition, buffer-size sequence and short-read pattern: the streaming BCJ writer used by XZWriter and the BCJReader buffer machine (4096-byte buffer, pos/filtered/unfiltered) equal one-shot filtering for all eight architectures (all eight filter models are proved restartable), zero-length reads change nothing, the Delta coder composes over concatenation, container cutting depends on byte counts only. The streaming models are executed against the real BCJWriter(streaming)/BCJReader with random partitions, buffer schedules and short inner reads on every check; all writers/readers of the crate are additionally run through the partition/buffer-size oracle. Partial: no theorem yet for the LZMA/LZMA2 ring buffer vs read sizes and for the encoder window vs write partition (oracle + C01 correspondence only).",
        "level_note": "Trusted: Lean kernel; hand-written models Model/Stream.lean, Model/BcjStream.lean, Model/Filters.lean (correspondence sampled per run); harness. Known finding: the standalone BCJWriter (public constructors) passes the tail of every write through unfiltered (KNOWN_FINDINGS.jsonl).",
        "technique": "Lean 4 proof (stream equivalence by invariant over the buffer machine) + differential correspondence + partition oracle",
    },
    "C08": {
        "id": "C08",
        "engine": "vhmt",
        "lean_modules": ["LzmaVerif.Props.C08"],
        "theorems": [
            "LzmaVerif.Props.C08.mt_delivers_in_order",
            "LzmaVerif.Props.C08.mt_nothing_lost",
            "LzmaVerif.Props.C08.mt_end_of_stream_is_complete",
            "LzmaVerif.Props.C08.mt_output_schedule_free",
        ],
        "level_text": "Lean theorems over the MT protocol LTS (coordinator, workers, queue, channel, reorder buffer, error store), for every number of units, every unit outcome, every worker limit and EVERY schedule: units are delivered in order 0,1,2,... without gaps or duplicates, a healthy dispatched unit is in exactly one place, end-of-stream implies all units delivered and none failed, any two complete runs deliver the same sequence. Per-unit equivalence with the single-threaded codec is C01/C02. The real four MT types are run under shuttle (random + PCT schedulers) and compared with the single-threaded result.",
        "level_note": "Trusted: Lean kernel; Model/MT.lean is a hand transcription (queue operations and set_error atomic; their fine-grained implementation is Model/WorkQueue.lean / C10); tie to the code: sync-skeleton translator for the worker loops (C09) + shuttle executions; sequential consistency only. Cutting of LZMA2 streams into units by the MT reader is validated by the oracle, not proved.",
        "technique": "Lean 4 proof (26-clause inductive invariant over an LTS) + shuttle schedule exploration",
    },
    "C09": {
        "id": "C09",
        "engine": "vhmt",
        "lean_modules": ["LzmaVerif.Props.C09"],
        "theorems": [
            "LzmaVerif.Props.C09.mt_call_never_blocks_forever",
            "LzmaVerif.Props.C09.mt_every_schedule_is_finite",
            "LzmaVerif.Props.C09.mt_failure_is_reported",
            "LzmaVerif.Props.C09.pinned_empty_input_hangs",
            "LzmaVerif.Props.C09.worker_error_paths_wake_coordinator",
        ],
        "level_text": "Lean theorems over the MT protocol LTS for every configuration and EVERY schedule: whenever no thread can move the coordinator is outside a call (no deadlock inside read), every schedule has at most 26*units + 3*maxWorkers + 20 steps (termination under every scheduler), a failed/panicked unit or failed source can never end in end-of-stream; witness: the pinned code's hang on empty input. worker_error_paths_wake_coordinator is re-proved on every run against the worker loops re-extracted from the four *_mt.rs files (panic guard first; every set_error followed by the wake-up send). Real code under shuttle with corrupt, truncated, empty and unterminated inputs: a deadlock or a success on bad input is a violation.",
        "level_note": "Trusted: as C08. The hypothesis 'a cleanly ending source has produced at least one unit' reflects LZMA2 (end marker closes a unit) and LZIP (scan rejects zero members); it is needed (witness theorem).",
        "technique": "Lean 4 proof (invariant + termination measure) + source-skeleton translator + shuttle",
    },
    "C13": {
        "id": "C13",
        "lean_modules": ["LzmaVerif.Props.C13"],
        "theorems": [
            "LzmaVerif.Props.C13.mt_output_is_schedule_free",
            "LzmaVerif.Props.C13.unit_cutting_depends_on_bytes_only",
            "LzmaVerif.Props.C13.filter_output_partition_free",
        ],
        "level_text": "Lean theorems: MT output order is independent of schedule and worker count, unit cutting depends on byte counts only, the BCJ stage is partition-free. The single-threaded encoder's determinism and partition independence are decided by the oracle (two runs with perturbed allocator state + random partitions must be byte-identical) and by the C01 correspondence (the Lean model, a function, reproduces the real bytes from the parse). Partial: partition independence of the match finder / parser is observed, not proved.",
        "level_note": "Trusted: Lean kernel, models as in C07/C08; dependence on uninitialised memory is outside the model (checked by the repeated-run oracle only).",
        "technique": "Lean 4 proof + repeated-run / partition oracle",
    },
    "C17": {
        "id": "C17",
        "lean_modules": ["LzmaVerif.Props.C17"],
        "theorems": [
            "LzmaVerif.Props.C17.enc_estimate_sound",
            "LzmaVerif.Props.C17.enc_estimate_tight",
            "LzmaVerif.Props.C17.lzma_dec_estimate",
            "LzmaVerif.Props.C17.lzma2_dec_estimate",
            "LzmaVerif.Props.C17.mem_limit_enforced",
        ],
        "level_text": "Lean theorems for every dictionary size 4 KiB..1 GiB, lc<=8, lp<=4, pb<=4, nice 8..273, both modes and match finders: the sum of all heap allocations of the encoder model is at most the estimate and the estimate exceeds it by < 512 KiB; the same for the LZMA/LZMA2 decoder estimates; the memory-limit decision is limit < need. The allocation model is tied to the code on every run: estimator values and the sorted list of ALL real allocations >= 4 KiB (counting global allocator) must equal the model's on a grid; the measured peak must respect both inequalities.",
        "level_note": "Trusted: Lean kernel; Model/Mem.lean (transcription of the estimator formulas and of the constructors' allocations; equality with real allocations sampled on a grid); allocator overhead and stack usage are not modelled.",
        "technique": "Lean 4 proof (linear arithmetic over the allocation model) + counting-allocator correspondence",
    },
    "C18": {
        "id": "C18",
        "lean_modules": ["LzmaVerif.Props.C18"],
        "theorems": [
            "LzmaVerif.Props.C18.xz_blocks",
            "LzmaVerif.Props.C18.lzip_members",
            "LzmaVerif.Props.C18.mt_units",
            "LzmaVerif.Props.C18.cutting_is_partition_free",
            "LzmaVerif.Props.C18.expected_size_honoured",
            "LzmaVerif.Props.C18.effective_limit_ge_two",
        ],
        "level_text": "Lean theorems for every limit and every sequence of write-call lengths: XZ blocks, LZIP members and MT units are exactly full blocks followed by the remainder (hence bounded by the limit, all but the last full, nothing lost), independent of the partition; a .lzma writer with an expected size finishes iff exactly that many bytes were written. The splitter model is executed against the sizes parsed from the real output (XZ index, LZIP trailers, LZMA2 chunk headers) and the real write/finish results on every check; chunk_count/member_count of the MT readers are checked by the oracle.",
        "level_note": "Trusted: Lean kernel; Model/Split.lean (byte-count abstraction of the write loops; correspondence sampled per run).",
        "technique": "Lean 4 proof (induction over write calls) + differential correspondence + size oracle",
    },
}
