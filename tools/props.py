"""Per-property configuration of ./check: Lean modules to rebuild, property theorems to audit."""

PROPS = {
    "C02": {
        "id": "C02",
        "lean_modules": ["LzmaVerif.Props.C02"],
        "theorems": [
            "LzmaVerif.Props.C02.lzipDict",
            "LzmaVerif.Props.C02.lzipDictBuggy_witness",
            "LzmaVerif.Props.C02.multibyte_rt",
            "LzmaVerif.Props.C02.multibyte_refuses",
            "LzmaVerif.Props.C02.lzma2DictProp",
        ],
        "trusted_base": [],
        "assumptions": [],
    },
}
