"""Per-property configuration of ./check: Lean modules to rebuild, property theorems to audit."""

HOOK_COMMITS = ["3cf3453", "b6342e8", "9141494", "43bebf2"]

NOT_APPLICABLE = {}

PROPS = {
    "C02": {
        "id": "C02",
        "level_text": "Lean theorems (all dictionary sizes, all values < 2^63): LZIP header byte announces the smallest representable dictionary >= the encoder's (lzipDict), XZ multibyte integers round-trip with the predicted size (multibyte_rt), LZMA2 dictionary property is minimal and sufficient (lzma2DictProp); witness theorem against the pinned rounding. The model functions are tied to the code by running both on the same requests on every check; block/member splitting, filter chains and the payload codec are covered by the round-trip oracle on the real writers/readers (search component), their theorems are growth items.",
        "level_note": "Trusted: Lean kernel (axioms propext, Classical.choice, Quot.sound only), the hand-written models of encode_dict_size/decode_dict_size/multibyte integers/LZMA2 dictionary property (correspondence sampled: all 256 header bytes, all property boundaries, random values), tools/extract_consts.py, harness.",
        "technique": "Lean 4 proof + differential correspondence (lzdriver vs hooks) + round-trip oracle",
        "lean_modules": ["LzmaVerif.Props.C02"],
        "theorems": [
            "LzmaVerif.Props.C02.lzipDict",
            "LzmaVerif.Props.C02.lzipDictBuggy_witness",
            "LzmaVerif.Props.C02.multibyte_rt",
            "LzmaVerif.Props.C02.multibyte_refuses",
            "LzmaVerif.Props.C02.lzma2DictProp",
        ],
        "trusted_base": [],
        "assumptions": [],
    },
    "C10": {
        "id": "C10",
        "engine": "vhmt",
        "level_text": "Lean theorems over a labelled transition system of the work queue (coordinator pushing n units then closing, k workers looping on steal), for ALL n, k and ALL schedules: every terminal state has all workers exited (drop_releases_all_threads), every schedule is at most 10n+8k+5 steps long (every_schedule_is_finite), the worker count is clamped to [1,256]; witness schedule against the pinned close(). The model is tied to the code by a translator: the order of synchronisation operations of push/close/steal is re-extracted from src/work_queue.rs on every run and skeleton_matches is re-proved against it. The real MT readers/writers are additionally run under shuttle (random + PCT schedulers) with drops at several points; shuttle reports any execution in which a thread stays blocked.",
        "level_note": "Trusted: Lean kernel; tools/extract_sync.py (pattern-based, ~100 lines); the LTS is a hand transcription of the extracted skeleton (atomicity of push_back+unlock merged); sequential consistency (weak-memory behaviours are outside both the model and shuttle); the mpsc result channel and Drop glue are covered by the shuttle search only.",
        "technique": "Lean 4 proof (inductive invariant + termination measure over an LTS) + source-skeleton translator + shuttle schedule exploration",
        "lean_modules": ["LzmaVerif.Props.C10"],
        "theorems": [
            "LzmaVerif.Props.C10.skeleton_matches",
            "LzmaVerif.Props.C10.drop_releases_all_threads",
            "LzmaVerif.Props.C10.every_schedule_is_finite",
            "LzmaVerif.Props.C10.pinned_close_loses_wakeup",
            "LzmaVerif.Props.C10.worker_bound",
        ],
        "trusted_base": [
            "tools/extract_sync.py: translator of the synchronisation skeleton of work_queue.rs (regenerated on every run; skeleton_matches is re-proved against it)",
            "shuttle 0.9 runtime (sequentially consistent schedules only) for the search component",
        ],
        "assumptions": ["sequential consistency of the mutex/condvar/atomic operations (shuttle and the Lean LTS both assume it)"],
    },
}
