#!/usr/bin/env python3
"""Translator for the match finders: re-extracts on every run, from /repo's sources (src/lz/hash234.rs, hc4.rs,
bt4.rs), the constants and comparison shapes that `Model/MfBase.lean`, `Model/Hc4.lean` and `Model/Bt4.lean` take
as parameters, into lean/LzmaVerif/Generated/MfParams.lean.  `Props/C01Hc4.lean` / `Props/C01Bt4.lean` prove
`params.ok` by `decide` against it and the compiled driver runs the models with these parameters.  A source line
that no longer matches its pattern is an extraction error (value 0 / false is emitted and the error counted)."""
import os, re, sys

REPO = os.environ.get("VERIF_REPO", "/repo")
OUT = os.environ.get("MF_OUT") or os.path.join(os.path.dirname(os.path.abspath(__file__)), "..", "lean", "LzmaVerif", "Generated", "MfParams.lean")


def src(p):
    s = open(os.path.join(REPO, p)).read()
    s = re.sub(r"//[^\n]*", "", s)
    return re.sub(r"\s+", " ", s)


errs = []
num = lambda s: int(s.replace("_", ""), 0)


def grab(path, pat, hits, conv=None, what=""):
    """number of matches must be `hits`; with conv: all captures equal, converted value returned"""
    ms = re.findall(pat, src(path))
    if len(ms) != hits:
        errs.append(f"{path}: pattern for {what} matched {len(ms)} time(s), expected {hits}: {pat}")
        return None
    if conv is None:
        return True
    if len(set(ms)) != 1:
        errs.append(f"{path}: {what}: differing values {sorted(set(ms))}")
        return None
    try:
        return conv(ms[0])
    except Exception as ex:
        errs.append(f"{path}: {what}: {ex}")
        return None


def cmp_shape(path, lhs, rhs, strict_op, lax_op, hits, what):
    """which comparison operator stands between lhs and rhs: True = strict_op, False = lax_op, None = neither"""
    s = src(path)
    n_strict = len(re.findall(lhs + r" " + re.escape(strict_op) + r" " + rhs, s))
    n_lax = len(re.findall(lhs + r" " + re.escape(lax_op) + r" " + rhs, s))
    if n_strict == hits and n_lax == 0:
        return True
    if n_lax == hits and n_strict == 0:
        return False
    errs.append(f"{path}: comparison for {what}: `{strict_op}` x{n_strict}, `{lax_op}` x{n_lax}, expected {hits} of one kind")
    return None


H = "src/lz/hash234.rs"
hp = {}
hp["hash2Size"] = grab(H, r"const HASH2_SIZE: u32 = 1 << ([0-9]+);", 1, lambda s: 1 << int(s), "HASH2_SIZE")
hp["hash3Size"] = grab(H, r"const HASH3_SIZE: u32 = 1 << ([0-9]+);", 1, lambda s: 1 << int(s), "HASH3_SIZE")
grab(H, r"const HASH2_MASK: u32 = HASH2_SIZE - 1; const HASH3_SIZE: u32 = 1 << 16; const HASH3_MASK: u32 = HASH3_SIZE - 1;", 1, None, "masks = size - 1")
hp["hashMul"] = grab(H, r"\(byte as u32\)\.wrapping_mul\((0x[0-9A-Fa-f_]+)\)", 1, num, "hash_byte multiplier")
grab(H, r"let mut tmp: u32 = Self::hash_byte\(buf\[0\]\) \^ \(buf\[1\] as u32\); self\.hash2_value = \(tmp & HASH2_MASK\) as i32;", 1, None, "hash2 = (hash_byte(b0) ^ b1) & MASK2")
hp["shift3"] = grab(H, r"tmp \^= \(buf\[2\] as u32\) << ([0-9]+); self\.hash3_value = \(tmp & HASH3_MASK\) as i32;", 1, num, "hash3 shift")
hp["shift4"] = grab(H, r"tmp \^= Self::hash_byte\(buf\[3\]\) << ([0-9]+); self\.hash4_value = \(tmp & self\.hash4_mask\) as i32;", 1, num, "hash4 shift")
grab(H, r"let mut h = dict_size - 1; h \|= h >> 1; h \|= h >> 2; h \|= h >> 4; h \|= h >> 8; h >>= 1;", 1, None, "hash4 size smear")
hp["h4Floor"] = grab(H, r"h \|= (0x[0-9A-Fa-f_]+); if h > \(1 << [0-9]+\) \{ h >>= 1; \} h \+ 1", 1, num, "hash4 floor")
hp["h4CapLog"] = grab(H, r"h \|= 0x[0-9A-Fa-f_]+; if h > \(1 << ([0-9]+)\) \{ h >>= 1; \} h \+ 1", 1, num, "hash4 cap")
grab(H, r"self\.hash2_table\[self\.hash2_value as usize\] = pos; self\.hash3_table\[self\.hash3_value as usize\] = pos; self\.hash4_table\[self\.hash4_value as usize\] = pos;", 1, None, "update_tables")

C = "src/lz/hc4.rs"
hc = {}
hc["d2Strict"] = cmp_shape(C, r"if delta2", r"self\.cyclic_size", "<", "<=", 1, "hash2 candidate range")
hc["d3Strict"] = cmp_shape(C, r"&& delta3", r"self\.cyclic_size", "<", "<=", 1, "hash3 candidate range")
hc["chainStopGe"] = cmp_shape(C, r"\|\| delta", r"self\.cyclic_size", ">=", ">", 1, "chain loop exit")
hc["cyclicExtra"] = grab(C, r"cyclic_size: dict_size as i32 \+ ([0-9]+),", 1, num, "cyclic_size")
hc["lzPosInitExtra"] = grab(C, r"lz_pos: dict_size as i32 \+ ([0-9]+),", 1, num, "initial lz_pos")
hc["chainExtra"] = grab(C, r"let chain = (?:AlignedMemoryI32::new\(|vec!\[0; )dict_size as usize \+ ([0-9]+)", 2, num, "chain length")
grab(C, r"cyclic_pos: -1,", 1, None, "initial cyclic_pos")
hc["distSub"] = grab(C, r"matches\.dist\[(?:0|count)\] = (?:\()?delta[23]? - ([0-9]+)\)?(?: as _)?;", 3, num, "dist = delta - 1")
hc["lenBestFloor"] = grab(C, r"if len_best < ([0-9]+) \{ len_best = \1; \}", 1, num, "len_best floor")
hc["minAvail"] = grab(C, r"let avail = encoder\.move_pos\(([0-9]+), \1\);", 1, num, "move_pos arguments")
hc["depthBase"] = grab(C, r"depth_limit \} else \{ ([0-9]+) \+ nice_len as i32 / [0-9]+ \}", 1, num, "default depth base")
hc["depthDiv"] = grab(C, r"depth_limit \} else \{ [0-9]+ \+ nice_len as i32 / ([0-9]+) \}", 1, num, "default depth divisor")
grab(C, r"let i = self\.cyclic_pos - delta \+ if delta > self\.cyclic_pos \{ self\.cyclic_size \} else \{ 0 \};", 1, None, "chain index")
grab(C, r"self\.cyclic_pos \+= 1; if self\.cyclic_pos == self\.cyclic_size \{ self\.cyclic_pos = 0; \}", 1, None, "cyclic_pos wrap")
grab(C, r"if encoder\.get_byte\(len_best, delta\) == encoder\.get_byte\(len_best, 0\) && encoder\.get_byte\(0, delta\) == encoder\.get_current_byte\(\)", 1, None, "chain candidate byte checks")
grab(C, r"let len = extend_match\( encoder\.buf\.as_slice\(\), encoder\.read_pos, 1, delta, match_len_limit, \);", 1, None, "chain candidate extension from 1")

B = "src/lz/bt4.rs"
bt = {}
bt["d2Strict"] = cmp_shape(B, r"if delta2", r"self\.cyclic_size", "<", "<=", 1, "hash2 candidate range")
bt["d3Strict"] = cmp_shape(B, r"&& delta3", r"self\.cyclic_size", "<", "<=", 1, "hash3 candidate range")
bt["treeStopGe"] = cmp_shape(B, r"if depth == 0 \|\| delta", r"self\.cyclic_size", ">=", ">", 2, "tree loop exit")
bt["pairSelGt"] = cmp_shape(B, r"\(\(delta", r"self\.cyclic_pos\) as i32\)", ">", ">=", 2, "pair selector")
bt["niceStopGe"] = cmp_shape(B, r"if len(?:_best)?", r"nice_len_limit \{", ">=", ">", 2, "nice length stop")
bt["bestStrict"] = cmp_shape(B, r"if len", r"len_best \{", ">", ">=", 1, "better match test")
bt["shLeft"] = grab(B, r"fn sh_left\(i: i32\) -> i32 \{ \(\(i as u32\) << ([0-9]+)\) as i32 \}", 1, num, "sh_left")
bt["h2Len"] = grab(B, r"len_best = ([0-9]+); matches\.len\[0\] = \1; matches\.dist\[0\] = delta2 - 1; matches\.count = 1;", 1, num, "hash2 candidate length")
bt["h3Len"] = grab(B, r"len_best = ([0-9]+); let count = matches\.count as usize; matches\.dist\[count\] = delta3 - 1; matches\.count \+= 1; delta2 = delta3;", 1, num, "hash3 candidate length")
bt["cyclicExtra"] = grab(B, r"let cyclic_size = dict_size as i32 \+ ([0-9]+);", 1, num, "cyclic_size")
bt["treeFactor"] = grab(B, r"let tree = (?:AlignedMemoryI32::new\(|vec!\[0; )cyclic_size as usize \* ([0-9]+)", 2, num, "tree length")
grab(B, r"cyclic_pos: -1, lz_pos: cyclic_size,", 1, None, "initial cyclic_pos / lz_pos")
bt["distSub"] = grab(B, r"matches\.dist\[(?:0|count)\] = delta[23]? - ([0-9]+);", 3, num, "dist = delta - 1")
bt["lenBestFloor"] = grab(B, r"if len_best < ([0-9]+) \{ len_best = \1; \}", 1, num, "len_best floor")
bt["minAvailFinishing"] = grab(B, r"let avail = encoder\.move_pos\(encoder\.nice_len as _, ([0-9]+)\);", 1, num, "move_pos arguments")
bt["depthBase"] = grab(B, r"depth_limit \} else \{ ([0-9]+) \+ nice_len as i32 / [0-9]+ \}", 1, num, "default depth base")
bt["depthDiv"] = grab(B, r"depth_limit \} else \{ [0-9]+ \+ nice_len as i32 / ([0-9]+) \}", 1, num, "default depth divisor")
grab(B, r"let pair_selector = self\.cyclic_size \* \(\(delta > self\.cyclic_pos\) as i32\); let pair = sh_left\(self\.cyclic_pos - delta \+ pair_selector\);", 2, None, "pair index")
grab(B, r"let mut ptr0 = sh_left\(self\.cyclic_pos\) \+ 1; let mut ptr1 = sh_left\(self\.cyclic_pos\);", 2, None, "ptr0 / ptr1")
grab(B, r"let mut len = len0\.min\(len1\);", 2, None, "len = min(len0, len1)")

# the 31-bit renormalisation of the match finders' positions (Model/Hc4Renorm.lean, Model/Bt4Renorm.lean)
nh = {}
nh["maxPos"] = grab(C, r"if avail != 0 \{ self\.lz_pos \+= 1; if self\.lz_pos == (0x[0-9A-Fa-f_]+) \{", 1, num, "hc4 normalisation threshold")
nh["offBase"] = grab(C, r"let norm_offset = (0x[0-9A-Fa-f_]+) - self\.cyclic_size; self\.hash\.normalize\(norm_offset\); LZEncoder::normalize\(&mut self\.chain, norm_offset\); self\.lz_pos = self\.lz_pos\.wrapping_sub\(norm_offset\); \} self\.cyclic_pos \+= 1;", 1, num, "hc4 normalisation offset and calls")
nb = {}
nb["maxPos"] = grab(B, r"const MAX_POS: i32 = (0x[0-9A-Fa-f_]+);", 1, num, "bt4 MAX_POS")
nb["offBase"] = nb["maxPos"] if grab(B, r"if avail != 0 \{ self\.lz_pos \+= 1; if self\.lz_pos == MAX_POS \{ let normalization_offset = MAX_POS - self\.cyclic_size; self\.hash\.normalize\(normalization_offset\); LZEncoder::normalize\(&mut self\.tree, normalization_offset\); self\.lz_pos -= normalization_offset; \} self\.cyclic_pos \+= 1;", 1, None, "bt4 normalisation branch") else None
grab(H, r"pub\(crate\) fn normalize\(&mut self, offset: i32\) \{ LZEncoder::normalize\(&mut self\.hash2_table, offset\); LZEncoder::normalize\(&mut self\.hash3_table, offset\); LZEncoder::normalize\(&mut self\.hash4_table, offset\); \}", 1, None, "Hash234::normalize covers the three tables")
grab("src/lz/lz_encoder.rs", r"fn normalize_scalar\(positions: &mut \[i32\], norm_offset: i32\) \{ positions \.iter_mut\(\) \.for_each\(\|p\| \*p = \(\*p\)\.max\(norm_offset\) - norm_offset\); \}", 1, None, "normalize_scalar = max(p, off) - off")

F = "src/enc/encoder_fast.rs"
fp = {}
fp["matchLenMin"] = grab("src/lib.rs", r"const MATCH_LEN_MIN: usize = ([0-9]+);", 1, num, "MATCH_LEN_MIN")
fp["matchLenMax"] = grab("src/lib.rs", r"const MATCH_LEN_MAX: usize = MATCH_LEN_MIN \+ LOW_SYMBOLS \+ MID_SYMBOLS \+ HIGH_SYMBOLS - 1;", 1, None, "MATCH_LEN_MAX formula") and 273
fp["pairShift"] = grab(F, r"fn change_pair\(small_dist: u32, big_dist: u32\) -> bool \{ small_dist < \(big_dist >> ([0-9]+)\) \}", 1, num, "change_pair shift")
fp["len2DistMin"] = grab(F, r"if main_len == MATCH_LEN_MIN as u32 && main_dist >= (0x[0-9A-Fa-f]+) \{ main_len = 1; \}", 1, num, "length-2 distance threshold")
fp["repDist2"] = grab(F, r"\(best_rep_len \+ 2 >= main_len as usize && main_dist >= \(1 << ([0-9]+)\)\)", 1, lambda x: 1 << int(x), "rep preference threshold 2")
fp["repDist3"] = grab(F, r"\(best_rep_len \+ 3 >= main_len as usize && main_dist >= \(1 << ([0-9]+)\)\)", 1, lambda x: 1 << int(x), "rep preference threshold 3")
grab(F, r"let avail = encoder\.lz\.data\.get_avail\(\)\.min\(MATCH_LEN_MAX as i32\); if avail < MATCH_LEN_MIN as i32 \{ return 1; \}", 1, None, "avail limit")
grab(F, r"if len >= encoder\.data\.nice_len \{ encoder\.data\.back = rep as i32; encoder\.skip\(len - 1\); return len as u32; \}", 1, None, "nice rep")
grab(F, r"if main_len >= encoder\.data\.nice_len as u32 \{ encoder\.data\.back = \(main_dist \+ REPS as i32\) as _; encoder\.skip\(\(main_len - 1\) as _\); return main_len; \}", 1, None, "nice match")
grab(F, r"if main_len < MATCH_LEN_MIN as _ \|\| avail <= MATCH_LEN_MIN as _ \{ return 1; \}", 1, None, "literal fallback")
grab(F, r"let limit = \(main_len - 1\)\.max\(MATCH_LEN_MIN as _\);", 1, None, "rep-hits-limit test")
grab(F, r"encoder\.data\.back = \(main_dist \+ REPS as i32\) as _; encoder\.skip\(\(main_len - 2\) as _\); main_len", 1, None, "final match")

def lean_val(v):
    if v is None:
        return None
    if isinstance(v, bool):
        return "true" if v else "false"
    return str(v)

def inst(d, zero_bools=()):
    parts = []
    for k, v in d.items():
        lv = lean_val(v)
        if lv is None:
            lv = "false" if k.endswith("Strict") or k.endswith("Ge") or k.endswith("Gt") else "0"
        parts.append(f"{k} := {lv}")
    return ", ".join(parts)

text = "/- GENERATED by tools/extract_mf.py from /repo's sources on every run. Do not edit. -/\n"
text += "import LzmaVerif.Model.Hc4\nimport LzmaVerif.Model.Bt4\nimport LzmaVerif.Model.EncFast\nimport LzmaVerif.Model.Bt4Renorm\nnamespace LzmaVerif.MfGen\n\n"
text += f"/-- constants of hash234.rs as they are in the source now (0 = extraction failed) -/\ndef hashParams : Mf.HashParams := {{ {inst(hp)} }}\n\n"
text += f"/-- constants and comparison shapes of hc4.rs -/\ndef hc4Params : Mf.Hc4.Hc4Params := {{ {inst(hc)}, hash := hashParams }}\n\n"
text += f"/-- constants and comparison shapes of bt4.rs -/\ndef bt4Params : Mf.Bt4.Bt4Params := {{ {inst(bt)}, hash := hashParams }}\n\n"
text += f"/-- constants of encoder_fast.rs / lib.rs used by the fast-mode parser model -/\ndef fastParams : EncFast.FastParams := {{ {inst(fp)} }}\n\n"
text += f"/-- where hc4.rs / bt4.rs renormalise their 31-bit positions -/\ndef hc4Norm : Mf.NormParams := {{ {inst(nh)} }}\ndef bt4Norm : Mf.NormParams := {{ {inst(nb)} }}\n\n"
text += f"/-- number of extraction errors of this run -/\ndef extractionErrors : Nat := {len(errs)}\n\nend LzmaVerif.MfGen\n"
if "--dry" in sys.argv:
    print(text)
else:
    old = open(OUT).read() if os.path.exists(OUT) else ""
    if old != text:
        open(OUT, "w").write(text)
for e in errs:
    print("mf extraction error:", e, file=sys.stderr)
print(f"match-finder parameters: hash={hp} hc4={hc} bt4={bt} fast={fp} norm_hc4={nh} norm_bt4={nb} errors={len(errs)}")
sys.exit(3 if errs else 0)
