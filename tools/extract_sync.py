#!/usr/bin/env python3
"""Synchronisation-skeleton translator: re-extracts, on every run, the order of synchronisation
operations in src/work_queue.rs (push, close, steal) and in the worker loops of the four MT files
into lean/LzmaVerif/Generated/SyncShape.lean.  The Lean protocol model (Model/WorkQueue.lean)
is a transcription of exactly this skeleton; `Props/C10.lean` proves by `decide` that the generated
skeleton equals the one the model was written for, so a change of the skeleton (e.g. the `closed`
store moving outside the queue lock) breaks a proof obligation."""
import re, sys, os

REPO = os.environ.get("VERIF_REPO", "/repo")
OUT = os.path.join(os.path.dirname(os.path.abspath(__file__)), "..", "lean", "LzmaVerif", "Generated", "SyncShape.lean")

def strip_comments(src):
    return re.sub(r"//[^\n]*", lambda m: " " * len(m.group(0)), src)

def fn_body(src, name):
    m = re.search(r"fn\s+" + re.escape(name) + r"\b[^{]*\{", src)
    if not m:
        raise KeyError(name)
    i = m.end(); depth = 1; start = i
    while depth:
        c = src[i]
        if c == "{": depth += 1
        elif c == "}": depth -= 1
        i += 1
    return src[start:i - 1], start

PATTERNS = [
    (r"\.queue\s*\.lock\(\)", "lock"),
    (r"\.closed\s*\.store\(\s*true", "storeClosed"),
    (r"\.closed\s*\.load\(", "loadClosed"),
    (r"\.notify_one\(\)", "notifyOne"),
    (r"\.notify_all\(\)", "notifyAll"),
    (r"\.condvar\s*\.wait\(", "wait"),
    (r"\.push_back\(", "pushBack"),
    (r"\.pop_front\(\)", "popFront"),
    (r"\bdrop\(\s*\w+\s*\)", "unlock"),
]

def ops_of(body):
    evs = []
    for pat, op in PATTERNS:
        for m in re.finditer(pat, body):
            evs.append((m.start(), op))
    # a guard bound by `let` inside an inner block is released at the end of that block
    for m in re.finditer(r"let\s+(?:mut\s+)?(\w+)\s*=\s*[^;]*\.lock\(\)[^;]*;", body):
        # find the innermost enclosing block of this statement
        depth = 0; j = m.start()
        # walk backwards to find whether we are inside an inner `{`
        k = m.start(); d = 0; inner_open = None
        while k > 0:
            k -= 1
            if body[k] == "}": d += 1
            elif body[k] == "{":
                if d == 0: inner_open = k; break
                d -= 1
        if inner_open is not None:
            # find its closing brace
            d = 1; k = inner_open + 1
            while d:
                if body[k] == "{": d += 1
                elif body[k] == "}": d -= 1
                k += 1
            # explicit drop(name) earlier wins
            if not re.search(r"\bdrop\(\s*" + m.group(1) + r"\s*\)", body[m.end():k]):
                evs.append((k - 1, "unlock"))
    evs.sort()
    return [op for _, op in evs]

def main():
    errs = []
    src = strip_comments(open(os.path.join(REPO, "src/work_queue.rs")).read())
    out = {}
    for fn in ["push", "close", "steal"]:
        try:
            body, _ = fn_body(src, fn)
            out[fn] = ops_of(body)
            if fn == "close":
                # close() must be unconditional: any control flow in it becomes a `branch` op (the model's
                # close has none), so that e.g. a conditional notify_all changes the skeleton
                evs = []
                for m in re.finditer(r"\b(?:if|match|while|for|loop|return)\b|\?", body):
                    evs.append(m.start())
                if evs:
                    out[fn] = ["branch"] * len(evs) + out[fn]
        except Exception as ex:
            errs.append(f"work_queue.rs:{fn}: {ex}")
            out[fn] = []
    # worker loops: after storing an error the worker must wake the coordinator before returning
    worker = {}
    for path, key in [("src/lzma2_reader_mt.rs", "lzma2Reader"), ("src/lzip/reader_mt.rs", "lzipReader"),
                      ("src/enc/lzma2_writer_mt.rs", "lzma2Writer"), ("src/lzip/writer_mt.rs", "lzipWriter")]:
        try:
            s = strip_comments(open(os.path.join(REPO, path)).read())
            body, _ = fn_body(s, "worker_thread_logic")
            evs = []
            for pat, op in [(r"\bset_error\(", "setError"), (r"result_tx\s*\.send\(\s*\(\s*WAKE_UP_SEQUENCE", "sendWake"),
                            (r"result_tx\s*\.send\(\s*\(\s*seq", "sendResult"), (r"\breturn\s*;", "ret"),
                            (r"\.steal\(\)", "steal"), (r"WorkerPanicGuard\s*\{", "panicGuard")]:
                for m in re.finditer(pat, body):
                    evs.append((m.start(), op))
            evs.sort()
            worker[key] = [op for _, op in evs]
        except Exception as ex:
            errs.append(f"{path}: {ex}")
            worker[key] = []
    # Drop impls: the shutdown flag is stored and the queue closed, unconditionally
    drops = {}
    for path, key in [("src/lzma2_reader_mt.rs", "lzma2Reader"), ("src/lzip/reader_mt.rs", "lzipReader"),
                      ("src/enc/lzma2_writer_mt.rs", "lzma2Writer"), ("src/lzip/writer_mt.rs", "lzipWriter")]:
        try:
            s = strip_comments(open(os.path.join(REPO, path)).read())
            m = re.search(r"impl\s*<[^{]*>\s*Drop\s+for\s+\w+[^{]*\{", s)
            if not m:
                raise KeyError("Drop impl")
            body, _ = fn_body(s[m.end():], "drop")
            evs = []
            for pat, op in [(r"shutdown_flag\s*\.\s*store\(\s*true", "storeShutdown"),
                            (r"shutdown_flag\s*\.\s*(?:swap|compare_exchange\w*|fetch_\w+|load)\(", "readShutdown"),
                            (r"\b(?:if|match|while|for|loop)\b", "branch"), (r"\breturn\b", "ret"),
                            (r"work_queue\s*\.\s*close\(\)", "closeQueue"), (r"\.join\(", "join"), (r"\?", "ret")]:
                for mm in re.finditer(pat, body):
                    evs.append((mm.start(), op))
            evs.sort()
            drops[key] = [op for _, op in evs]
        except Exception as ex:
            errs.append(f"{path}: drop: {ex}")
            drops[key] = []
    def lst(ops, ns): return "[" + ", ".join(f"{ns}.{o}" for o in ops) + "]"
    text = "/- GENERATED by tools/extract_sync.py from /repo's sources on every run. Do not edit. -/\n"
    text += "import LzmaVerif.Model.SyncOps\nnamespace LzmaVerif.SyncShape\nopen LzmaVerif.SyncOps\n\n"
    for fn in ["push", "close", "steal"]:
        text += f"def {fn}Ops : List QOp := {lst(out[fn], 'QOp')}\n"
    for k, v in worker.items():
        text += f"def {k}WorkerOps : List WOp := {lst(v, 'WOp')}\n"
    for k, v in drops.items():
        text += f"def {k}DropOps : List DOp := {lst(v, 'DOp')}\n"
    text += "\nend LzmaVerif.SyncShape\n"
    old = open(OUT).read() if os.path.exists(OUT) else None
    if old != text:
        open(OUT, "w").write(text)
    for e in errs: print("SYNC-EXTRACT-ERROR " + e, file=sys.stderr)
    print(f"sync skeleton: push={out['push']} close={out['close']} steal={out['steal']} errors={len(errs)} changed={old != text}")
    sys.exit(3 if errs else 0)

if __name__ == "__main__":
    main()
