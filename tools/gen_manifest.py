#!/usr/bin/env python3
"""Regenerates MANIFEST.json from tools/props.py (single source of truth for what is claimed)."""
import json, os, sys
ROOT = os.path.dirname(os.path.dirname(os.path.abspath(__file__)))
sys.path.insert(0, os.path.join(ROOT, "tools"))
from props import PROPS, NOT_APPLICABLE, HOOK_COMMITS

ALL = [f"C{i:02d}" for i in range(1, 20)]
checks = []
for pid in ALL:
    if pid not in PROPS: continue
    c = PROPS[pid]
    checks.append({
        "property_id": pid,
        "quick_cmd": f"./check {pid} --tier quick",
        "thorough_cmd": f"./check {pid} --tier thorough",
        "evidence_file": f"evidence/{pid}.json",
        "replay_cmd_template": f"./check {pid} --replay {{path}}",
        "engine": {"vh": "vh+lzdriver+lean", "vhmt": "vhmt(shuttle)+lean", "feat": "harness-feat(feature builds / ASan)+lean"}[c.get("engine", "vh")],
        "level_claimed": {"category": c.get("level", "proof"), "text": c["level_text"], "design_ref": f"DESIGN.md section 8 / {pid}"},
        "level_note": c["level_note"],
        "technique": c["technique"],
    })
na = [{"property_id": p, "reason": NOT_APPLICABLE.get(p, "not claimed yet: model and theorems under construction")} for p in ALL if p not in PROPS]
m = {
    "version": 1,
    "setup_cmd": "cd /verif && python3 tools/extract_consts.py && python3 tools/extract_sync.py && python3 tools/extract_twins.py && python3 tools/extract_shapes.py && python3 tools/extract_mf.py && (cd lean && lake build LzmaVerif lzdriver) && (cd harness && cargo build --release --offline) && (cd harness-mt && cargo build --release --offline) && python3 tools/feat_engine.py build C14 && python3 tools/feat_engine.py build C15",
    "hooks": {
        "guard": "hasenbanck_lzma_rust2_verif",
        "enable": "RUSTFLAGS=\"--cfg hasenbanck_lzma_rust2_verif\" (set in /verif/harness/.cargo/config.toml; the MT engine /verif/harness-mt additionally sets --cfg hasenbanck_lzma_rust2_verif_shuttle, which swaps std::sync/std::thread for shuttle); both harness crates depend on /repo by path and are rebuilt by every check",
        "baseline_off_cmd": "cd /repo && cargo test --workspace --no-fail-fast --offline",
        "source_commits": HOOK_COMMITS,
        "add_only": True,
    },
    "engines": [
        {"name": "vh", "path": "harness", "serves_properties": [p for p in ALL if p in PROPS and PROPS[p].get("engine", "vh") == "vh"], "kind_free_text": "Rust harness linking /repo (hooks on): generators, oracles on the real code, request/answer transcripts for the Lean driver"},
        {"name": "vhmt", "path": "harness-mt", "serves_properties": [p for p in ALL if p in PROPS and PROPS[p].get("engine") == "vhmt"], "kind_free_text": "the four MT types of /repo under the shuttle runtime: schedule exploration, deadlock and leaked-thread detection"},
        {"name": "harness-feat", "path": "harness-feat", "serves_properties": [p for p in ALL if p in PROPS and PROPS[p].get("engine") == "feat"], "kind_free_text": "transcript program built against /repo with the four feature sets (C14) and with AddressSanitizer + optimization (C15); driven by tools/feat_engine.py"},
        {"name": "lzdriver", "path": "lean/Driver", "serves_properties": [p for p in ALL if p in PROPS], "kind_free_text": "compiled Lean executable running the model's definitions on the same requests (correspondence)"},
        {"name": "lean", "path": "lean/LzmaVerif", "serves_properties": [p for p in ALL if p in PROPS], "kind_free_text": "Lean 4 models, helper lemmas and property theorems; rebuilt and axiom-audited by every check"},
        {"name": "translators", "path": "tools", "serves_properties": [p for p in ALL if p in PROPS], "kind_free_text": "extract_consts.py (constants/tables), extract_sync.py (synchronisation skeleton of work queue, worker loops and Drop impls) extract_twins.py (constants and statement shapes of the unsafe fast paths) extract_shapes.py (statement shapes of the encoder's LZ window) and extract_mf.py (constants and comparison shapes of the match finders): regenerate Lean from /repo's source on every run"},
    ],
    "checks": checks,
    "not_applicable": na,
    "notes": "Lean 4 machine-checked proof family. See DESIGN.md. Known findings: KNOWN_FINDINGS.jsonl.",
}
json.dump(m, open(os.path.join(ROOT, "MANIFEST.json"), "w"), indent=2)
print(f"MANIFEST.json: {len(checks)} checks, {len(na)} not claimed")
