#!/bin/bash
# usage: tools/seeded_run.sh <seeded-dir-name> <check-id>... : apply the seeded change to /repo, run the checks (quick), revert
set -u
d=/verif/seeded/$1; shift
if [ -n "$(git -C /repo status --porcelain)" ]; then echo "/repo not clean"; exit 2; fi
git -C /repo apply "$d/patch.diff" || exit 2
for c in "$@"; do
  out=$(cd /verif && ./check "$c" --tier "${TIER:-quick}" 2>&1); rc=$?
  echo "== $(basename $d) under check $c: rc=$rc"; echo "$out" | grep -E "VIOLATION|KNOWN-FINDING|obligations" | head -5
done
git -C /repo checkout -- .
# evidence and generated files written while the seeded change was applied describe the mutated tree: restore them
git -C /verif checkout -- evidence lean/LzmaVerif/Generated 2>/dev/null
