#!/usr/bin/env python3
"""Translator for statement shapes of the encoder's LZ window (src/lz/lz_encoder.rs) and of the encoder
constructors' window parameters: re-checks on every run that the statements `Model/EncWindow.lean` transcribes are
still written the way the model says, and emits lean/LzmaVerif/Generated/Shapes.lean with one Bool per statement
(`false` = the source line no longer matches its pattern).  `Props/C07.lean` proves `ShapeGen.allOk = true` by
`decide`; a reworded or changed statement therefore breaks a proof obligation instead of silently leaving the model
behind (e.g. a window move that rounds its offset up instead of down)."""
import os, re, sys

REPO = os.environ.get("VERIF_REPO", "/repo")
OUT = os.path.join(os.path.dirname(os.path.abspath(__file__)), "..", "lean", "LzmaVerif", "Generated", "Shapes.lean")


def src(p):
    s = open(os.path.join(REPO, p)).read()
    s = re.sub(r"//[^\n]*", "", s)
    # the protocol event log of the MT code (verification hook, `mt_ev!` / `mt_attr!` in src/lib.rs: they expand to
    # nothing unless the crate is built with the verification cfg) is treated like a comment
    s = re.sub(r"\bmt_(?:ev|attr)!\((?:[^()]|\([^()]*\))*\);", "", s)
    return re.sub(r"\s+", " ", s)


LZ = "src/lz/lz_encoder.rs"
SHAPES = [
    # (lean name, file, regex on the whitespace-normalised, comment-free source, expected number of matches, doc)
    ("moveMask", LZ, r"const MOVE_BLOCK_ALIGN_MASK: i32 = !\(MOVE_BLOCK_ALIGN - 1\);", 1, "mask = !(align - 1)"),
    ("moveOffsetRoundsDown", LZ, r"let move_offset = \(self\.read_pos \+ 1 - self\.keep_size_before as i32 - self\.pending_size as i32\) & MOVE_BLOCK_ALIGN_MASK;", 1,
     "move_offset = (read_pos + 1 - keep_size_before - pending_size) & MASK (rounds DOWN: at least keep_size_before bytes of history stay before the FIRST PENDING byte; EncWindow.moveOffset)"),
    ("moveOffsetNotPinned", LZ, r"let move_offset = \(self\.read_pos \+ 1 - self\.keep_size_before as i32\) & MOVE_BLOCK_ALIGN_MASK;", 0,
     "the statement before the repair (EncWindow.moveOffsetPinned: forgets the pending bytes, witness pinned_move_loses_pending_history) is gone"),
    ("moveSize", LZ, r"let move_size = self\.write_pos - move_offset;", 1, "everything from the offset to write_pos is kept"),
    ("moveCopy", LZ, r"self\.buf\.copy_within\(offset\.\.offset \+ move_size, 0\);", 1, "copied to the start of the buffer"),
    ("moveShiftsPositions", LZ, r"self\.read_pos -= move_offset; self\.read_limit -= move_offset; self\.write_pos -= move_offset;", 1, "all three positions shift by the offset"),
    ("moveCondition", LZ, r"if self\.read_pos >= \(self\.buf_size as i32 - self\.keep_size_after as i32\) \{ self\.move_window\(\); \}", 1, "the window moves when read_pos reaches buf_size - keep_size_after"),
    ("fillLen", LZ, r"let len = input \.len\(\) \.min\(\(self\.buf_size as i32 - self\.write_pos\) as usize\);", 1, "fill takes min(input, free space), compared as usize (the pinned comparison cast input.len() to i32: a slice of 2 GiB or more took the `else` branch and panicked; repaired in f316de2)"),
    ("readLimitRule", LZ, r"if self\.write_pos >= self\.keep_size_after as i32 \{ self\.read_limit = self\.write_pos - self\.keep_size_after as i32; \}", 1, "read_limit = write_pos - keep_size_after"),
    ("flushLimit", LZ, r"self\.read_limit = self\.write_pos - 1;", 2, "set_flushing / set_finishing: read_limit = write_pos - 1"),
    ("hasEnoughData", LZ, r"self\.read_pos - already_read_len < self\.read_limit", 1, "has_enough_data"),
    ("keepSizes", LZ, r"let keep_size_before = extra_size_before \+ dict_size; let keep_size_after = extra_size_after \+ match_len_max;", 2, "keep_size_before / keep_size_after (constructor and get_buf_size)"),
    ("reserveSize", LZ, r"let reserve_size = \(dict_size / 2 \+ \(256 << 10\)\)\.min\(512 << 20\);", 1, "reserve = min(dict/2 + 256 KiB, 512 MiB)"),
    ("bufSize", LZ, r"keep_size_before \+ keep_size_after \+ reserve_size", 1, "buf_size = keep_before + keep_after + reserve"),
    ("movePosPending", LZ, r"if avail < required_for_flushing && \(avail < required_for_finishing \|\| !self\.finishing\) \{ self\.pending_size \+= 1; avail = 0; \}", 1, "move_pos: pending-byte rule"),
    ("pendingReplay", LZ, r"if self\.pending_size > 0 && self\.read_pos < self\.read_limit \{ self\.read_pos -= self\.pending_size as i32;", 1, "process_pending_bytes rewinds by pending_size"),
    ("presetTail", LZ, r"let copy_size = preset_dict\.len\(\)\.min\(dict_size as usize\); let offset = preset_dict\.len\(\) - copy_size;", 1, "preset dictionary: the LAST dict_size bytes are kept"),
    ("extraBeforeLzma2", "src/enc/lzma2_writer.rs", r"get_extra_size_before\(lzma_options\.dict_size\),", 2, "both LZMA2Writer encoder constructions pass get_extra_size_before(dict_size)"),
    ("extraBeforeRule", "src/enc/lzma2_writer.rs", r"pub fn get_extra_size_before\(dict_size: u32\) -> u32 \{ COMPRESSED_SIZE_MAX\.saturating_sub\(dict_size\) \}", 1, "extra_size_before = 64 KiB - dict (saturating)"),
]

MT_FILES = ["src/enc/lzma2_writer_mt.rs", "src/lzip/writer_mt.rs", "src/lzma2_reader_mt.rs", "src/lzip/reader_mt.rs"]
MT_SHAPES = []
for k, f in enumerate(MT_FILES):
    MT_SHAPES += [
        (f"workerClamp{k}", f, r"let max_workers = num_workers\.clamp\(1, 256\);", 1, "requested worker count clamped to 1..=256"),
        (f"workerCapField{k}", f, r"[{,] max_workers, ", 1, "the struct field is initialised with the clamped value"),
        (f"workerCapNoOther{k}", f, r"max_workers: (?!u32)", 0, "no other initialisation of max_workers"),
        (f"spawnCondition{k}", f, r"if queue_len > 0 && active_workers == spawned_workers && spawned_workers < self\.max_workers \{ self\.spawn_worker_thread\(\); \}", 1, "a worker is spawned only below the cap"),
        (f"spawnOnlyThere{k}", f, r"\.spawn_worker_thread\(\)", 1 if k == 3 else 2, "spawn_worker_thread is called from the constructor (LZIPReaderMT: not there) and from the guarded place only"),
    ]

errs = []
vals = []
mtvals = []
for name, path, pat, hits, doc in MT_SHAPES:
    try:
        n = len(re.findall(pat, src(path)))
    except FileNotFoundError:
        n = -1
    ok = n == hits
    if not ok:
        errs.append(f"{path}: shape `{name}` ({doc}) matched {n} time(s), expected {hits}")
    mtvals.append((name, ok, doc, path))
for name, path, pat, hits, doc in SHAPES:
    try:
        n = len(re.findall(pat, src(path)))
    except FileNotFoundError:
        n = -1
    ok = n == hits
    if not ok:
        errs.append(f"{path}: shape `{name}` ({doc}) matched {n} time(s), expected {hits}")
    vals.append((name, ok, doc, path))

text = "/- GENERATED by tools/extract_shapes.py from /repo's sources on every run. Do not edit. -/\nnamespace LzmaVerif.ShapeGen\n\n"
for name, ok, doc, path in vals:
    text += f"/-- {path}: {doc} -/\ndef {name} : Bool := {'true' if ok else 'false'}\n"
text += "\n/-- every transcribed statement of the encoder window is still written as the model says -/\ndef allOk : Bool := " + " && ".join(n for n, _, _, _ in vals) + "\n"
text += "\n"
for name, ok, doc, path in mtvals:
    text += f"/-- {path}: {doc} -/\ndef {name} : Bool := {'true' if ok else 'false'}\n"
text += "\n/-- the worker cap of the four multi-threaded types is still written as the MT model assumes -/\ndef mtAllOk : Bool := " + " && ".join(n for n, _, _, _ in mtvals) + "\n"
text += f"\n/-- number of statements that no longer match -/\ndef extractionErrors : Nat := {len(errs)}\n\nend LzmaVerif.ShapeGen\n"
old = open(OUT).read() if os.path.exists(OUT) else ""
if old != text:
    open(OUT, "w").write(text)
for e in errs:
    print("shape mismatch:", e, file=sys.stderr)
print(f"window statement shapes: {sum(1 for v in vals if v[1])}/{len(vals)} match, MT worker-cap shapes: {sum(1 for v in mtvals if v[1])}/{len(mtvals)} match, changed={old != text}")
sys.exit(3 if errs else 0)
