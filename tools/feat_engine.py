#!/usr/bin/env python3
"""Engine for C14 (feature configurations behave identically) and C15 (unsafe fast paths stay in bounds).
usage: feat_engine.py build <C14|C15>  |  feat_engine.py <C14|C15> <tier> <seed> <outdir>
C14: harness-feat is built against /repo with the four feature sets and run on the same seeded cases; the
     transcripts (compressed-byte digests, decode results of valid, bit-flipped and truncated streams incl. the
     error kind and the number of bytes produced before the error) must be identical line by line.
C15: harness-feat built with AddressSanitizer (nightly, -Zsanitizer=address) and `optimization` on runs the same
     workload; any sanitizer report is a violation, the last transcript line names the failing case.
Writes <outdir>/<prop>.json in the report format of the other engines."""
import json, os, subprocess, sys, time

ROOT = os.path.dirname(os.path.dirname(os.path.abspath(__file__)))
SRC = os.path.join(ROOT, "harness-feat")
TGT = os.path.join(ROOT, ".work", "feat-target")
VARIANTS = [("std-optimization", "std optimization"), ("std", "std"), ("optimization", "optimization"), ("nostd", "")]
ENV = dict(os.environ, CARGO_NET_OFFLINE="true")


def build(prop):
    logs = []
    if prop == "C14":
        for name, feats in VARIANTS:
            cmd = ["cargo", "build", "--release", "--offline", "--no-default-features"] + (["--features", feats] if feats else [])
            p = subprocess.run(cmd, cwd=SRC, env=dict(ENV, CARGO_TARGET_DIR=os.path.join(TGT, name)), capture_output=True, text=True)
            logs.append((name, p.returncode, p.stderr[-800:]))
            if p.returncode != 0:
                return False, logs
    else:
        cmd = ["cargo", "+nightly", "build", "--profile", "relfast", "--offline", "--target", "x86_64-unknown-linux-gnu", "--no-default-features", "--features", "std optimization"]
        p = subprocess.run(cmd, cwd=SRC, env=dict(ENV, CARGO_TARGET_DIR=os.path.join(TGT, "asan"), RUSTFLAGS="-Zsanitizer=address --cfg hasenbanck_lzma_rust2_verif"), capture_output=True, text=True)
        logs.append(("asan", p.returncode, p.stderr[-800:]))
        if p.returncode != 0:
            return False, logs
        # guard-page build (stable toolchain): the chunk buffer of the range decoder ends at an inaccessible page
        cmd = ["cargo", "build", "--profile", "relfast", "--offline", "--no-default-features", "--features", "std optimization guard"]
        p = subprocess.run(cmd, cwd=SRC, env=dict(ENV, CARGO_TARGET_DIR=os.path.join(TGT, "guard"), RUSTFLAGS="--cfg hasenbanck_lzma_rust2_verif"), capture_output=True, text=True)
        logs.append(("guard", p.returncode, p.stderr[-800:]))
        if p.returncode != 0:
            return False, logs
    return True, logs


def binary(name):
    if name == "asan":
        return os.path.join(TGT, "asan", "x86_64-unknown-linux-gnu", "relfast", "vf")
    if name == "guard":
        return os.path.join(TGT, "guard", "relfast", "vf")
    return os.path.join(TGT, name, "release", "vf")


def run(name, tier, seed, timeout=3000, guard="back"):
    p = subprocess.run([binary(name), tier, str(seed)], capture_output=True, text=True, timeout=timeout,
                       env=dict(ENV, ASAN_OPTIONS="detect_leaks=0:abort_on_error=0:halt_on_error=1", VF_GUARD=guard))
    return p.returncode, p.stdout.splitlines(), p.stderr


def case_header(lines, idx):
    """the 'case N <tag> <fmt> <opts> ... enc' line of the case a transcript line belongs to"""
    key = lines[idx].split()[1] if lines[idx].startswith("case ") else None
    for l in lines[:idx + 1][::-1]:
        w = l.split()
        if len(w) > 2 and w[0] == "case" and w[1] == key and (" enc " in l or " enc-err " in l):
            return l
    return lines[idx]


def main():
    if sys.argv[1] == "build":
        ok, logs = build(sys.argv[2])
        for n, rc, err in logs:
            if rc != 0:
                print(f"build {n}: rc={rc}\n{err}")
        sys.exit(0 if ok else 1)
    prop, tier, seed, outdir = sys.argv[1], sys.argv[2], int(sys.argv[3]), sys.argv[4]
    os.makedirs(outdir, exist_ok=True)
    failures, dist, samples, evaluations, distinct = [], {}, [], 0, set()
    notes = [f"seed={seed} tier={tier}"]
    if prop == "C14":
        outs = {}
        for name, _ in VARIANTS:
            rc, lines, err = run(name, tier, seed)
            outs[name] = lines
            dist[f"lines.{name}"] = len(lines)
            if rc != 0 or not lines or not lines[-1].startswith("end "):
                failures.append({"id": f"feature-run-failed:{name}", "what": f"the {name} build exited with {rc} before finishing the workload: {err[-300:]}", "detail": {"variant": name, "last_line": lines[-1] if lines else ""}})
        base = outs["std-optimization"]
        for l in base:
            w = l.split()
            if " enc " in l:
                distinct.add((w[2], w[3], w[4][:12]))
                dist[f"fmt.{w[3]}"] = dist.get(f"fmt.{w[3]}", 0) + 1
                dist[f"tag.{w[2].split('+')[0].split('-')[0]}"] = dist.get(f"tag.{w[2].split('+')[0].split('-')[0]}", 0) + 1
            if " dec " in l:
                k = "dec." + l.split(" dec ")[1].split()[0] + ("." + l.split(" dec ")[1].split()[1] if l.split(" dec ")[1].startswith("err") else "")
                dist[k] = dist.get(k, 0) + 1
        for name, _ in VARIANTS[1:]:
            other = outs[name]
            evaluations += min(len(base), len(other))
            for i, (a, b) in enumerate(zip(base, other)):
                if a != b:
                    kind = "compressed-bytes" if " enc " in a else "decode-result"
                    failures.append({"id": f"feature-divergence:{name}:{kind}", "what": f"default features and the {name} build differ", "detail": {"variant": name, "case": case_header(base, i), "default": a, "other": b, "how": f"harness-feat built with features [{dict(VARIANTS)[name]}] vs [std optimization]: vf {tier} {seed}"}})
                    if len(failures) > 40:
                        break
            if len(base) != len(other):
                failures.append({"id": f"feature-divergence:{name}:length", "what": "transcripts have different lengths", "detail": {"variant": name, "default_lines": len(base), "other_lines": len(other)}})
        samples = [{"line": l} for l in base[:6]]
        rule = "harness-feat built against /repo with features {std+optimization (default), std, optimization, none}; identical seeded workload (all four formats, random options, window-boundary lengths, long streams; valid, bit-flipped and truncated streams); transcripts compared line by line; non-trivial = every case; distinct = (data kind, format, options)"
    else:
        rc, lines, err = run("asan", tier, seed)
        evaluations = len(lines)
        for l in lines:
            w = l.split()
            if " enc " in l:
                distinct.add((w[2], w[3], w[4][:12]))
                dist[f"fmt.{w[3]}"] = dist.get(f"fmt.{w[3]}", 0) + 1
        if "AddressSanitizer" in err or rc != 0 or not lines or not lines[-1].startswith("end "):
            head = [x for x in err.splitlines() if "ERROR: AddressSanitizer" in x or x.strip().startswith("#0") or x.strip().startswith("#1") or "located" in x or "READ of size" in x or "WRITE of size" in x][:8]
            failures.append({"id": "sanitizer-report:" + (head[0].split("AddressSanitizer:")[1].split()[0] if head and "AddressSanitizer:" in head[0] else f"exit{rc}"),
                             "what": "AddressSanitizer reported a memory error in the optimization build" if "AddressSanitizer" in err else f"the sanitizer build exited with {rc}",
                             "detail": {"report": head, "last_case_started": case_header(lines, len(lines) - 1) if lines else "", "next_case_index": (int(lines[-1].split()[1]) + 1) if lines and lines[-1].startswith("case") else None,
                                        "how": f"RUSTFLAGS=-Zsanitizer=address cargo +nightly build --profile relfast --target x86_64-unknown-linux-gnu --features 'std optimization' (harness-feat; relfast = release without overflow checks / debug assertions); vf {tier} {seed}"}})
        # the same workload in the guard-page build, once with the inaccessible page behind and once in front of every buffer
        for gmode in ["back", "front"]:
            rc2, lines2, err2 = run("guard", tier, seed, guard=gmode)
            evaluations += len(lines2)
            dist[f"lines.guard-{gmode}"] = len(lines2)
            if rc2 != 0 or not lines2 or not lines2[-1].startswith("end "):
                failures.append({"id": f"guard-page-fault:{gmode}:exit{rc2}", "what": f"the guard-page build (every buffer of a page or more placed directly {'in front of' if gmode == 'back' else 'behind'} an inaccessible page) died with status {rc2}: an access {'past the end' if gmode == 'back' else 'in front of the start'} of a buffer",
                                 "detail": {"last_case_started": case_header(lines2, len(lines2) - 1) if lines2 else "", "stderr": err2[-300:], "how": f"cargo build --profile relfast --features 'std optimization guard' (harness-feat); VF_GUARD={gmode} vf {tier} {seed}"}})
        samples = [{"line": l} for l in lines[:6]]
        rule = "harness-feat built with AddressSanitizer and the optimization feature; workload = C14's (all formats and options, inputs that fill the encoder window to within 0..9 bytes of its end, long streams with window moves, corrupted and truncated streams for the decoder fast paths); any sanitizer report is a violation; both builds use the profile crate users run (no overflow checks, no debug assertions); additionally a guard-page build (custom allocator: every buffer of a page or more - chunk buffer, LZ window, dictionary, hash and probability tables - ends at, and in a second run starts behind, a PROT_NONE page, because neither ASan nor Miri see the inline-assembly loads) runs the same workload twice, a fault is a violation; distinct = (data kind, format, options)"
    rep = {"property": prop, "evaluations": evaluations, "distinct_nontrivial": len(distinct), "failures": failures, "model_requests": 0,
           "notes": notes, "rule": rule, "samples": samples, "dist": dist}
    json.dump(rep, open(os.path.join(outdir, f"{prop}.json"), "w"), indent=1)
    open(os.path.join(outdir, f"{prop}.req"), "w").close()
    open(os.path.join(outdir, f"{prop}.exp"), "w").close()
    print(f"{prop} evaluations={evaluations} distinct={len(distinct)} failures={len(failures)} model_requests=0")


if __name__ == "__main__":
    main()
