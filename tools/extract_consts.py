#!/usr/bin/env python3
"""Constants translator: re-extracts numeric constants and tables from /repo's Rust sources
into lean/LzmaVerif/Generated/Consts.lean.  Run on every check; the Lean theorems that depend
on these values are re-checked against what the code says now.

A constant whose declaration can no longer be found or evaluated is reported on stderr and
exit status 3 (a broken obligation, handled by `check`)."""
import re, sys, os

REPO = os.environ.get("VERIF_REPO", "/repo")
OUT = os.path.join(os.path.dirname(os.path.abspath(__file__)), "..", "lean", "LzmaVerif", "Generated", "Consts.lean")

# (file, rust name, lean name)
WANT = [
    ("src/lib.rs", "DICT_SIZE_MIN", None), ("src/lib.rs", "DICT_SIZE_MAX", None),
    ("src/lib.rs", "LOW_SYMBOLS", None), ("src/lib.rs", "MID_SYMBOLS", None), ("src/lib.rs", "HIGH_SYMBOLS", None),
    ("src/lib.rs", "POS_STATES_MAX", None), ("src/lib.rs", "MATCH_LEN_MIN", None), ("src/lib.rs", "MATCH_LEN_MAX", None),
    ("src/lib.rs", "DIST_STATES", None), ("src/lib.rs", "DIST_SLOTS", None), ("src/lib.rs", "DIST_MODEL_START", None),
    ("src/lib.rs", "DIST_MODEL_END", None), ("src/lib.rs", "FULL_DISTANCES", None), ("src/lib.rs", "ALIGN_BITS", None),
    ("src/lib.rs", "ALIGN_SIZE", None), ("src/lib.rs", "ALIGN_MASK", None), ("src/lib.rs", "REPS", None),
    ("src/lib.rs", "SHIFT_BITS", None), ("src/lib.rs", "TOP_MASK", None), ("src/lib.rs", "BIT_MODEL_TOTAL_BITS", None),
    ("src/lib.rs", "BIT_MODEL_TOTAL", None), ("src/lib.rs", "PROB_INIT", None), ("src/lib.rs", "MOVE_BITS", None),
    ("src/lib.rs", "DIST_SPECIAL_INDEX", None), ("src/lib.rs", "DIST_SPECIAL_END", None), ("src/lib.rs", "TOP_VALUE", None),
    ("src/lib.rs", "RC_BIT_MODEL_OFFSET", None),
    ("src/state.rs", "STATES", None), ("src/state.rs", "LIT_STATES", None),
    ("src/state.rs", "LIT_LIT", None), ("src/state.rs", "SHORTREP_LIT_LIT", None), ("src/state.rs", "LIT_MATCH", None),
    ("src/state.rs", "LIT_LONGREP", None), ("src/state.rs", "LIT_SHORTREP", None), ("src/state.rs", "NONLIT_MATCH", None),
    ("src/state.rs", "NONLIT_REP", None),
    ("src/enc/encoder.rs", "LZMA2_UNCOMPRESSED_LIMIT", None), ("src/enc/encoder.rs", "LZMA2_COMPRESSED_LIMIT", None),
    ("src/enc/lzma2_writer.rs", "COMPRESSED_SIZE_MAX", "W_COMPRESSED_SIZE_MAX"),
    ("src/lzma2_reader.rs", "COMPRESSED_SIZE_MAX", "R_COMPRESSED_SIZE_MAX"),
    ("src/lzip.rs", "LZIP_MAGIC", None), ("src/lzip.rs", "LZIP_VERSION", None), ("src/lzip.rs", "HEADER_SIZE", "LZIP_HEADER_SIZE"),
    ("src/lzip.rs", "TRAILER_SIZE", "LZIP_TRAILER_SIZE"), ("src/lzip.rs", "MIN_DICT_SIZE", "LZIP_MIN_DICT_SIZE"),
    ("src/lzip.rs", "MAX_DICT_SIZE", "LZIP_MAX_DICT_SIZE"),
    ("src/xz.rs", "XZ_MAGIC", None), ("src/xz.rs", "XZ_FOOTER_MAGIC", None),
    ("src/filter/bcj.rs", "FILTER_BUF_SIZE", None),
    ("src/filter/delta.rs", "MAX_DISTANCE", "DELTA_MAX_DISTANCE"), ("src/filter/delta.rs", "DIS_MASK", "DELTA_DIS_MASK"),
    ("src/filter/bcj/x86.rs", "MASK_TO_ALLOWED_STATUS", None), ("src/filter/bcj/x86.rs", "MASK_TO_BIT_NUMBER", None),
    ("src/lz/lz_encoder.rs", "MOVE_BLOCK_ALIGN", None),
    ("src/enc/encoder_fast.rs", "EXTRA_SIZE_BEFORE", "FAST_EXTRA_SIZE_BEFORE"), ("src/enc/encoder_fast.rs", "EXTRA_SIZE_AFTER", "FAST_EXTRA_SIZE_AFTER"),
    ("src/enc/encoder_normal.rs", "OPTS", "NORMAL_OPTS"),
    ("src/enc/encoder_normal.rs", "EXTRA_SIZE_BEFORE", "NORMAL_EXTRA_SIZE_BEFORE"), ("src/enc/encoder_normal.rs", "EXTRA_SIZE_AFTER", "NORMAL_EXTRA_SIZE_AFTER"),
    ("src/lz/hash234.rs", "HASH2_SIZE", None), ("src/lz/hash234.rs", "HASH3_SIZE", None),
]

# price machinery of the normal encoder mode (Model/EncPrices.lean, Model/EncNormal.lean); a separate output file so
# that a change there does not rebuild everything that imports Consts.lean
WANT_PRICES = [
    ("src/enc/range_enc.rs", "PRICES", None), ("src/enc/range_enc.rs", "MOVE_REDUCING_BITS", None),
    ("src/enc/range_enc.rs", "BIT_PRICE_SHIFT_BITS", None),
    ("src/enc/encoder.rs", "DIST_PRICE_UPDATE_INTERVAL", None), ("src/enc/encoder.rs", "ALIGN_PRICE_UPDATE_INTERVAL", None),
    ("src/enc/encoder.rs", "PRICE_UPDATE_INTERVAL", None),
    ("src/enc/encoder_normal.rs", "INFINITY_PRICE", None),
]
OUT_PRICES = os.path.join(os.path.dirname(OUT), "PriceConsts.lean")

DECL = re.compile(r"(?:pub(?:\([a-z]+\))?\s+)?(?:const|static)\s+([A-Z0-9_]+)\s*:\s*([^=]+?)\s*=\s*(.*?);", re.S)

def decls(path):
    src = open(os.path.join(REPO, path)).read()
    src = re.sub(r"//[^\n]*", "", src)
    d = {}
    for m in DECL.finditer(src):
        d.setdefault(m.group(1), (m.group(2).strip(), m.group(3).strip()))
    return d

def ev(expr, env, ty):
    e = expr
    e = re.sub(r"\bb'(.)'", lambda m: str(ord(m.group(1))), e)
    e = re.sub(r"\bas\s+[a-z0-9_]+", "", e)
    e = re.sub(r"(\d)_(?=\d)", r"\1", e)
    e = re.sub(r"\b(0x[0-9A-Fa-f_]+?|\d[\d_]*?)_?(u8|u16|u32|u64|usize|i32|i64|isize)\b", r"\1", e)
    e = " ".join(e.split())
    e = re.sub(r"(?<!/)/(?!/)", "//", e)
    e = e.replace("_", "_")
    e = re.sub(r"u32::MAX", "0xFFFFFFFF", e)
    e = re.sub(r"\.wrapping_sub\(([^()]+|\([^()]*\))\)", r" |WSUB| (\1)", e)
    e = re.sub(r"size_of::<u16>\(\)", "2", e)
    e = e.replace("!", "~").replace("true", "1").replace("false", "0").replace("&[", "[").replace("Self::", "")
    e = re.sub(r"0x([0-9A-Fa-f]+)_([0-9A-Fa-f]+)", r"0x\1\2", e)
    class W:
        def __init__(s, v): s.v = v
        def __or__(s, o): return W2(s.v)
        def __ror__(s, o): return W2(o)
    class W2:
        def __init__(s, v): s.v = v
        def __or__(s, o): return (s.v - o) % (1 << 32)
    names = dict(env)
    names["WSUB"] = W(0)
    val = eval(e, {"__builtins__": {}}, names)
    def fix(v):
        if isinstance(v, bool): return int(v)
        if isinstance(v, int) and v < 0 and ty.strip().startswith("u"): return v % (1 << 32)
        return v
    if isinstance(v := val, list): return [fix(x) for x in v]
    return fix(val)

def main():
    cache, env, errs = {}, {}, []
    n1, c1 = emit(WANT, OUT, "", cache, env, errs)
    n2, c2 = emit(WANT_PRICES, OUT_PRICES, "import LzmaVerif.Generated.Consts\n", cache, env, errs)
    for e in errs: print("CONST-EXTRACT-ERROR " + e, file=sys.stderr)
    print(f"consts: {n1 + n2} extracted, {len(errs)} errors, changed={c1 or c2}")
    sys.exit(3 if errs else 0)

def emit(want, out, imports, cache, env, errs):
    lines = []
    for path, name, lean in want:
        try:
            if path not in cache: cache[path] = decls(path)
            ty, expr = cache[path][name]
            fenv = dict(env.get(path, {}))
            # constants of lib.rs are visible everywhere
            for k, v in env.get("src/lib.rs", {}).items(): fenv.setdefault(k, v)
            # resolve other decls of the same file lazily
            for _ in range(4):
                try:
                    val = ev(expr, fenv, ty); break
                except NameError as ne:
                    missing = re.findall(r"'([A-Z0-9_]+)'", str(ne))
                    if not missing: raise
                    for mname in missing:
                        src = cache[path] if mname in cache[path] else cache.setdefault("src/lib.rs", decls("src/lib.rs"))
                        t2, e2 = src[mname]
                        fenv[mname] = ev(e2, fenv, t2)
            env.setdefault(path, {})[name] = val
            for k, v in fenv.items(): env[path].setdefault(k, v)
            ln = lean or name
            if isinstance(val, list):
                lines.append(f"def {ln} : List Nat := [{', '.join(str(x) for x in val)}]  -- {path}")
            else:
                if val < 0: lines.append(f"def {ln} : Int := {val}  -- {path}")
                else: lines.append(f"def {ln} : Nat := {val}  -- {path}")
        except Exception as ex:
            errs.append(f"{path}:{name}: {type(ex).__name__}: {ex}")
    text = imports + "/-! GENERATED by tools/extract_consts.py from /repo's sources on every run. Do not edit. -/\nnamespace LzmaVerif.Consts\n\n" + "\n".join(lines) + "\n\nend LzmaVerif.Consts\n"
    os.makedirs(os.path.dirname(out), exist_ok=True)
    old = open(out).read() if os.path.exists(out) else None
    if old != text:
        open(out, "w").write(text)
    return len(lines), old != text

if __name__ == "__main__":
    main()
