#!/bin/bash
# usage: tools/verify_seeded.sh <dir with wt/ patch.diff demo.rs>  [skip-suite]
# Confirms, in the scratch worktree <dir>/wt (never in /repo): the patch applies to the unmodified tree, the demonstration
# passes without it and fails with it, and the crate's own test-suite has the same failing set with the patch as without.
# Writes <dir>/verify.txt.
set -u
d=$1; wt=$d/wt; out=$d/verify.txt
export CARGO_NET_OFFLINE=true
cd "$wt" || exit 2
git checkout -q -- . ; rm -f tests/demo.rs
git apply --check "$d/patch.diff" || { echo "PATCH DOES NOT APPLY" | tee "$out"; exit 1; }
cp "$d/demo.rs" tests/demo.rs
: > "$out"
timeout 1500 cargo test --offline -j 8 --test demo -- --test-threads 4 > "$d/demo_clean.log" 2>&1; rc_clean=$?
echo "demo on unmodified tree: rc=$rc_clean" >> "$out"
git apply "$d/patch.diff"
timeout 1500 cargo test --offline -j 8 --test demo -- --test-threads 4 > "$d/demo_patched.log" 2>&1; rc_patched=$?
echo "demo with patch: rc=$rc_patched" >> "$out"
if [ "${2:-}" != "skip-suite" ]; then
  rm -f tests/demo.rs
  timeout 3000 cargo test --workspace --no-fail-fast --offline -j 8 -- --test-threads 8 > "$d/suite_patched.log" 2>&1
  grep -E "^test .* FAILED|^test .*failed|^    [a-z_0-9:]+$" "$d/suite_patched.log" | sed 's/^ *//' | grep -E "FAILED|^[a-z_0-9:]+$" | sort -u > "$d/suite_failed.txt"
  echo "suite with patch: failing = $(grep -E '^test .* FAILED' "$d/suite_patched.log" | awk '{print $2}' | sort -u | tr '\n' ' ')" >> "$out"
  echo "suite summary: $(grep -E '^test result' "$d/suite_patched.log" | awk '{p+=$4; f+=$6} END {print p" passed, "f" failed"}')" >> "$out"
  cp "$d/demo.rs" tests/demo.rs
fi
cat "$out"
[ $rc_clean -eq 0 ] && [ $rc_patched -ne 0 ]
