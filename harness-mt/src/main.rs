//! MT engine: the four multi-threaded types of /repo run under the shuttle runtime
//! (cfg hasenbanck_lzma_rust2_verif_shuttle swaps std::sync/thread for shuttle's), so that thread
//! schedules are explored deterministically and deadlocks / leaked blocked threads are detected.
#[path = "../../harness/src/util.rs"]
#[allow(dead_code)]
mod util;

use lzma_rust2::*;
use serde_json::json;
use shuttle::scheduler::{PctScheduler, RandomScheduler};
use std::io::{Cursor, Read, Write};
use std::num::NonZeroU64;
use std::panic::{catch_unwind, AssertUnwindSafe};
use std::sync::{Arc, Mutex};
use util::*;

#[derive(Clone, Debug)]
struct Scenario {
    name: String,
    kind: &'static str, // lzma2r, lzipr, lzma2w, lzipw
    input: Vec<u8>,     // compressed stream (readers) or plain data (writers)
    expect: Option<Vec<u8>>, // expected plain output (readers, valid input) / None = must be an error
    workers: u32,
    dict: u32,
    unit: u64,
    reads_before_drop: Option<usize>, // readers: drop after this many read calls
    writes: Vec<usize>,               // writers: partition
    finish: bool,                     // writers: finish (true) or just drop
    flush_at: Option<usize>,
    may_ok: bool, // readers, corrupt input without an integrity check (raw LZMA2 bit flip): success is allowed, blocking is not
    ok_only_with: Option<Vec<u8>>, // readers, corrupt input with an integrity check: success is allowed only with exactly these bytes
    preset: Option<Vec<u8>>, // LZMA2 reader / writer: preset dictionary
    nice: Option<u32>,       // writers: nice_len override (out-of-range values: every call must still return; an error is fine)
    short_reads: usize,      // readers: the source delivers at most this many bytes per read call (0 = no limit)
}

/// what one execution observed (shared with the closure through a mutex)
#[derive(Default, Clone, Debug)]
struct Obs {
    wrong_output: Option<String>,
    unexpected_ok: bool,
    unexpected_err: Option<String>,
    runs: u64,
}

fn lz_opts(dict: u32) -> LZMAOptions {
    let mut o = LZMAOptions::with_preset(1);
    o.dict_size = dict;
    o
}

fn lz_opts_sc(sc: &Scenario) -> LZMAOptions {
    let mut o = lz_opts(sc.dict);
    if let Some(n) = sc.nice {
        o.nice_len = n;
    }
    if sc.kind == "lzma2w" {
        o.preset_dict = sc.preset.clone().map(|p| p.into());
    }
    o
}

fn run_scenario(sc: &Scenario, obs: &Arc<Mutex<Obs>>) {
    let mut o = obs.lock().unwrap().clone();
    o.runs += 1;
    match sc.kind {
        "lzma2r" | "lzipr" => {
            let mut out = Vec::new();
            let res: std::io::Result<()> = (|| {
                let mut buf = vec![0u8; 700];
                let mut calls = 0usize;
                if sc.kind == "lzma2r" {
                    let mut r = LZMA2ReaderMT::new(BudgetCursor::short(sc.input.clone(), u64::MAX, sc.short_reads), sc.dict, sc.preset.as_deref(), sc.workers);
                    loop {
                        if let Some(n) = sc.reads_before_drop {
                            if calls >= n {
                                return Ok(());
                            }
                        }
                        let n = match r.read(&mut buf) {
                            Ok(n) => n,
                            Err(e) => {
                                // a caller may call again after an error: that call must return, too
                                let _ = r.read(&mut buf);
                                return Err(e);
                            }
                        };
                        calls += 1;
                        if n == 0 {
                            break;
                        }
                        out.extend_from_slice(&buf[..n]);
                    }
                } else {
                    let mut r = LZIPReaderMT::new(BudgetCursor::short(sc.input.clone(), 2_000_000, sc.short_reads), sc.workers)?;
                    loop {
                        if let Some(n) = sc.reads_before_drop {
                            if calls >= n {
                                return Ok(());
                            }
                        }
                        let n = match r.read(&mut buf) {
                            Ok(n) => n,
                            Err(e) => {
                                let _ = r.read(&mut buf);
                                return Err(e);
                            }
                        };
                        calls += 1;
                        if n == 0 {
                            break;
                        }
                        out.extend_from_slice(&buf[..n]);
                    }
                }
                Ok(())
            })();
            match (&sc.expect, res) {
                (Some(exp), Ok(())) => {
                    let ok = if sc.reads_before_drop.is_some() { exp.starts_with(&out) } else { &out == exp };
                    if !ok {
                        o.wrong_output = Some(format!("got {} bytes (fnv {}), expected {} bytes", out.len(), fnv(&out), exp.len()));
                    }
                }
                (Some(_), Err(e)) => o.unexpected_err = Some(e.to_string()),
                (None, Ok(())) => {
                    let harmless = sc.ok_only_with.as_ref().map(|d| d == &out).unwrap_or(false);
                    if sc.reads_before_drop.is_none() && !sc.may_ok && !harmless {
                        o.unexpected_ok = true
                    }
                }
                (None, Err(e)) => {
                    if e.to_string().contains("call-budget-exhausted") {
                        o.unexpected_err = Some("no progress: the reader made more than 2000000 read/seek calls on a small corrupt input".into());
                    }
                }
            }
        }
        _ => {
            let res: std::io::Result<Option<Vec<u8>>> = (|| {
                if sc.kind == "lzma2w" {
                    let mut opts = LZMA2Options { lzma_options: lz_opts_sc(sc), chunk_size: None };
                    opts.set_chunk_size(NonZeroU64::new(sc.unit));
                    let mut w = LZMA2WriterMT::new(Vec::new(), opts, sc.workers)?;
                    let mut off = 0;
                    for (i, &n) in sc.writes.iter().enumerate() {
                        w.write_all(&sc.input[off..off + n])?;
                        off += n;
                        if sc.flush_at == Some(i) {
                            w.flush()?;
                        }
                    }
                    if sc.finish {
                        Ok(Some(w.finish()?))
                    } else {
                        Ok(None)
                    }
                } else {
                    let mut opts = LZIPOptions { lzma_options: lz_opts_sc(sc), member_size: None };
                    opts.set_member_size(NonZeroU64::new(sc.unit));
                    let mut w = LZIPWriterMT::new(Vec::new(), opts, sc.workers)?;
                    let mut off = 0;
                    for (i, &n) in sc.writes.iter().enumerate() {
                        w.write_all(&sc.input[off..off + n])?;
                        off += n;
                        if sc.flush_at == Some(i) {
                            w.flush()?;
                        }
                    }
                    if sc.finish {
                        Ok(Some(w.finish()?))
                    } else {
                        Ok(None)
                    }
                }
            })();
            match res {
                Ok(Some(comp)) => {
                    // decode with the single-threaded reader: must give the input back
                    let mut out = Vec::new();
                    let r = if sc.kind == "lzma2w" {
                        LZMA2Reader::new(comp.as_slice(), sc.dict, sc.preset.as_deref()).read_to_end(&mut out).map(|_| ())
                    } else {
                        LZIPReader::new(comp.as_slice()).and_then(|mut r| r.read_to_end(&mut out).map(|_| ()))
                    };
                    match r {
                        Ok(()) if out == sc.input => {
                            // output must be schedule independent: compare with the first execution
                            let h = fnv(&comp);
                            if let Some(exp) = &sc.expect {
                                if exp.len() == 8 && u64::from_le_bytes(exp[..8].try_into().unwrap()) != h {
                                    o.wrong_output = Some("compressed bytes differ between schedules".into());
                                }
                            }
                        }
                        Ok(()) => o.wrong_output = Some(format!("ST decode of MT output: {} bytes, expected {}", out.len(), sc.input.len())),
                        Err(e) => o.wrong_output = Some(format!("ST reader rejects MT output: {e}")),
                    }
                }
                Ok(None) => {}
                // out-of-range options: an error (from new, write, flush or finish) is the right answer
                Err(_) if sc.nice.map(|n| !(8..=273).contains(&n)).unwrap_or(false) => {}
                Err(e) => o.unexpected_err = Some(e.to_string()),
            }
        }
    }
    *obs.lock().unwrap() = o;
}

// ---------------------------------------------------------------------------------------------------------
// Trace validation (DESIGN 16, "MT trace validation"): the protocol event log of a real execution of the MT
// readers (verif_hooks::mt_trace_*) is replayed by the Lean driver through the LTS of Model/MT.lean
// (`mt.trace`).  The environment of the LTS (how many units the source yields, how the source ends, what
// happens to each unit) is computed HERE from the input alone, with the single-threaded readers and an
// independent walk over the container - not taken from the log.

/// Cuts an LZMA2 stream into the work units `LZMA2ReaderMT` dispatches (a unit = the chunks up to the next
/// chunk that resets the dictionary, closed by an end marker).  Returns (units, the source ends with the end
/// marker, the end / error is met in the same source call that pushed the last unit).
fn lzma2_units(input: &[u8]) -> (Vec<Vec<u8>>, bool, bool) {
    let mut units: Vec<Vec<u8>> = Vec::new();
    let mut cur: Vec<u8> = Vec::new();
    let mut pos = 0usize;
    loop {
        // one call of read_and_dispatch_chunk
        let mut pushed = false;
        let Some(&control) = input.get(pos) else { return (units, false, false) };
        pos += 1;
        if control == 0 {
            cur.push(0);
            units.push(std::mem::take(&mut cur));
            return (units, true, true);
        }
        if (control >= 0xE0 || control == 1) && !cur.is_empty() {
            cur.push(0);
            units.push(std::mem::take(&mut cur));
            pushed = true;
        }
        cur.push(control);
        let hl = if control >= 0xC0 { 5 } else if control >= 0x80 { 4 } else if control <= 2 { 2 } else { return (units, false, pushed) };
        if pos + hl > input.len() {
            return (units, false, pushed);
        }
        let h = &input[pos..pos + hl];
        let size = if control >= 0x80 { u16::from_be_bytes([h[2], h[3]]) as usize + 1 } else { u16::from_be_bytes([h[0], h[1]]) as usize + 1 };
        cur.extend_from_slice(h);
        pos += hl;
        if pos + size > input.len() {
            return (units, false, pushed);
        }
        cur.extend_from_slice(&input[pos..pos + size]);
        pos += size;
    }
}

/// The members `LZIPReaderMT::new` finds by its backward scan (None: `new` fails, no reader exists).
fn lzip_members(input: &[u8]) -> Option<Vec<Vec<u8>>> {
    if input.len() < 26 {
        return None;
    }
    let mut out = Vec::new();
    let mut end = input.len();
    while end > 0 {
        if end < 20 {
            break;
        }
        let ms = u64::from_le_bytes(input[end - 8..end].try_into().unwrap());
        if ms == 0 || ms > end as u64 {
            return None;
        }
        let start = end - ms as usize;
        if input.len() < start + 4 || &input[start..start + 4] != b"LZIP" {
            return None;
        }
        out.push(input[start..end].to_vec());
        end = start;
    }
    if out.is_empty() {
        return None;
    }
    out.reverse();
    Some(out)
}

/// `units=… srcok=… fused=… maxw=… initw=…` of the `mt.trace` request for a reader scenario
fn trace_cfg(sc: &Scenario) -> Option<String> {
    let (outcomes, srcok, fused, initw): (Vec<bool>, bool, bool, u32) = match sc.kind {
        "lzma2r" => {
            let (units, srcok, fused) = lzma2_units(&sc.input);
            let oc = units
                .iter()
                .map(|u| {
                    let mut out = Vec::new();
                    LZMA2Reader::new(u.as_slice(), sc.dict, sc.preset.as_deref()).read_to_end(&mut out).is_ok()
                })
                .collect();
            (oc, srcok, fused, 1)
        }
        "lzipr" => {
            let ms = lzip_members(&sc.input)?;
            let oc = ms
                .iter()
                .map(|m| {
                    let mut out = Vec::new();
                    LZIPReader::new(m.as_slice()).and_then(|mut r| r.read_to_end(&mut out)).is_ok()
                })
                .collect();
            (oc, true, false, 0)
        }
        "lzma2w" | "lzipw" => {
            // open-system replay (the writers' coordinator is not the LTS's): every unit meets the same options,
            // so its outcome is decided by whether the single-threaded writer accepts them
            let good = {
                let sample = b"trace validation sample";
                if sc.kind == "lzma2w" {
                    let mut w = LZMA2Writer::new(Vec::new(), LZMA2Options { lzma_options: { let mut o = lz_opts_sc(sc); o.preset_dict = None; o }, chunk_size: None });
                    w.write_all(sample).and_then(|_| w.flush()).is_ok()
                } else {
                    let mut w = LZIPWriter::new(Vec::new(), LZIPOptions { lzma_options: lz_opts_sc(sc), member_size: None });
                    w.write_all(sample).is_ok() && w.finish().is_ok()
                }
            };
            let u: String = if good { "-".into() } else { "f".repeat(64) };
            return Some(format!("W units={u} initw=1"));
        }
        _ => return None,
    };
    let u: String = if outcomes.is_empty() { "-".into() } else { outcomes.iter().map(|&b| if b { 'o' } else { 'f' }).collect() };
    Some(format!("units={u} srcok={} fused={} maxw={} initw={initw}", srcok as u8, fused as u8, sc.workers.clamp(1, 256)))
}

/// collects the event logs of selected executions of one (scenario, scheduler) run
struct TraceSink {
    every: usize,
    cap: usize,
    execs: usize,
    recording: bool,
    traces: Vec<Vec<String>>,
}

impl TraceSink {
    /// called at the start of every execution (the log of the previous one is complete then: shuttle has run
    /// all of its threads to their end) and once after the last
    fn turn(&mut self, start_next: bool) {
        if self.recording {
            let t = lzma_rust2::verif_hooks::mt_trace_take();
            if !t.is_empty() {
                self.traces.push(t);
            }
            self.recording = false;
        }
        if start_next {
            if self.traces.len() < self.cap && self.execs % self.every == 0 {
                lzma_rust2::verif_hooks::mt_trace_start();
                self.recording = true;
            }
            self.execs += 1;
        }
    }
}

fn st_lzma2(data: &[u8], dict: u32, chunk: u64) -> Vec<u8> {
    let mut opts = LZMA2Options { lzma_options: lz_opts(dict), chunk_size: None };
    opts.set_chunk_size(NonZeroU64::new(chunk));
    let mut w = LZMA2Writer::new(Vec::new(), opts);
    w.write_all(data).unwrap();
    w.finish().unwrap()
}

/// An LZMA2 stream of several independent runs of chunks (each `seg` bytes of the data are encoded by their own
/// single-threaded writer, so each run starts with a dictionary reset): `LZMA2ReaderMT` cuts it into one work
/// unit per run.  Also returns the offsets at which the runs start.
fn st_lzma2_multi(data: &[u8], dict: u32, seg: usize) -> (Vec<u8>, Vec<usize>) {
    let mut out = Vec::new();
    let mut starts = Vec::new();
    for part in data.chunks(seg.max(1)) {
        let s = st_lzma2(part, dict, 1 << 20);
        starts.push(out.len());
        out.extend_from_slice(&s[..s.len() - 1]);
    }
    out.push(0);
    (out, starts)
}

fn st_lzip(data: &[u8], dict: u32, member: u64) -> Vec<u8> {
    let mut opts = LZIPOptions { lzma_options: lz_opts(dict), member_size: None };
    opts.set_member_size(NonZeroU64::new(member));
    let mut w = LZIPWriter::new(Vec::new(), opts);
    w.write_all(data).unwrap();
    w.finish().unwrap()
}

fn scenarios(prop: &str, rng: &mut Rng, thorough: bool) -> Vec<Scenario> {
    let mut v = Vec::new();
    let dict = 4096u32;
    let unit = 4096u64;
    let sizes: &[usize] = if thorough { &[0, 1, 5000, 13000, 30000] } else { &[0, 9000, 13000] };
    for &size in sizes {
        let kind = *rng.pick(&["text", "mixed", "random"]);
        let data = gen_data(rng, kind, size);
        let l2 = st_lzma2(&data, dict, unit);
        let lz = st_lzip(&data, dict, unit);
        for &workers in if thorough { &[1u32, 2, 3, 4][..] } else { &[1u32, 3][..] } {
            let base = Scenario {
                name: String::new(), kind: "lzma2r", input: vec![], expect: None, workers, dict, unit,
                reads_before_drop: None, writes: vec![], finish: true, flush_at: None, may_ok: false, ok_only_with: None, preset: None, nice: None, short_reads: 0,
            };
            if prop == "C08" || prop == "C10" {
                v.push(Scenario { name: format!("lzma2r-valid-{size}-w{workers}"), kind: "lzma2r", input: l2.clone(), expect: Some(data.clone()), ..base.clone() });
                v.push(Scenario { name: format!("lzipr-valid-{size}-w{workers}"), kind: "lzipr", input: lz.clone(), expect: Some(data.clone()), ..base.clone() });
                let parts = { let (_, p) = gen_partition(rng, data.len()); p };
                v.push(Scenario { name: format!("lzma2w-{size}-w{workers}"), kind: "lzma2w", input: data.clone(), writes: parts.clone(), flush_at: if rng.chance(1, 2) { Some(0) } else { None }, ..base.clone() });
                v.push(Scenario { name: format!("lzipw-{size}-w{workers}"), kind: "lzipw", input: data.clone(), writes: parts.clone(), ..base.clone() });
            }
            if (prop == "C08" || prop == "C09" || prop == "C10") && size > 0 {
                // LZMA2 streams that really consist of several work units (the single-threaded writer resets the
                // dictionary only once, so `l2` above is ONE unit): valid, a damaged unit in the middle, cut inside a
                // unit, cut directly behind the control byte that opens a unit, dropped early
                let (multi, starts) = st_lzma2_multi(&data, dict, (data.len() / 5).max(600));
                if prop != "C09" {
                    v.push(Scenario { name: format!("lzma2r-multi-valid-{size}-w{workers}"), kind: "lzma2r", input: multi.clone(), expect: Some(data.clone()), ..base.clone() });
                }
                if prop == "C08" && size == 13000 {
                    // runs that start with more than 64 KiB of incompressible bytes followed by compressible data: the first
                    // LZMA chunk of such a run comes after stored chunks and carries new properties and a state reset WITHOUT
                    // a dictionary reset (control 0xC0..0xDF) - it is not the start of a work unit
                    let mut d3 = Vec::new();
                    for _ in 0..3 {
                        d3.extend(gen_data(rng, "random", 70_000));
                        d3.extend(gen_data(rng, "text", 30_000));
                    }
                    let (m3, _) = st_lzma2_multi(&d3, 1 << 16, 100_000);
                    v.push(Scenario { name: format!("lzma2r-stored-then-lzma-w{workers}"), kind: "lzma2r", input: m3, expect: Some(d3), dict: 1 << 16, ..base.clone() });
                }
                if prop == "C10" {
                    for drop_at in [1usize, 4] {
                        v.push(Scenario { name: format!("lzma2r-multi-drop{drop_at}-{size}-w{workers}"), kind: "lzma2r", input: multi.clone(), expect: Some(data.clone()), reads_before_drop: Some(drop_at), ..base.clone() });
                    }
                }
                if prop != "C08" && starts.len() >= 3 {
                    let mid = starts[starts.len() / 2];
                    let mut m = multi.clone();
                    let p = mid + 7 + rng.below(40) as usize;
                    m[p] ^= 0x5A;
                    v.push(Scenario { name: format!("lzma2r-multi-flip@{p}-{size}-w{workers}"), kind: "lzma2r", input: m, expect: None, may_ok: true, ..base.clone() });
                    v.push(Scenario { name: format!("lzma2r-multi-truncctl-{size}-w{workers}"), kind: "lzma2r", input: multi[..mid + 1].to_vec(), expect: None, ..base.clone() });
                    v.push(Scenario { name: format!("lzma2r-multi-truncmid-{size}-w{workers}"), kind: "lzma2r", input: multi[..mid + 40].to_vec(), expect: None, ..base.clone() });
                    v.push(Scenario { name: format!("lzma2r-multi-noend-{size}-w{workers}"), kind: "lzma2r", input: multi[..multi.len() - 1].to_vec(), expect: None, ..base.clone() });
                }
            }
            if (prop == "C08" || prop == "C10") && size > 0 {
                // a source that delivers only a few bytes per read call (legal for io::Read): same bytes as the
                // single-threaded reader
                for max in [1usize, 7, 1000] {
                    v.push(Scenario { name: format!("lzipr-shortreads{max}-{size}-w{workers}"), kind: "lzipr", input: lz.clone(), expect: Some(data.clone()), short_reads: max, ..base.clone() });
                    v.push(Scenario { name: format!("lzma2r-shortreads{max}-{size}-w{workers}"), kind: "lzma2r", input: l2.clone(), expect: Some(data.clone()), short_reads: max, ..base.clone() });
                }
            }
            if (prop == "C08" || prop == "C09" || prop == "C10" || prop == "C12MT") && size > 0 {
                // LZIP member sequences as `cat a.lz empty.lz b.lz` produces them: an empty member in the middle / first /
                // last; one large slow member followed by tiny ones (a later member is finished before an earlier one)
                let a = &data[..data.len() / 2];
                let b = &data[data.len() / 2..];
                let e: &[u8] = &[];
                for (tag, parts) in [("empty-middle", vec![a, e, b]), ("empty-first", vec![e, a, b]), ("empty-last", vec![a, b, e]), ("empties", vec![e, e, a, e, e, b, e])] {
                    let file: Vec<u8> = parts.iter().flat_map(|p| st_lzip(p, dict, 1 << 20)).collect();
                    let plain: Vec<u8> = parts.concat();
                    v.push(Scenario { name: format!("lzipr-members-{tag}-{size}-w{workers}"), kind: "lzipr", input: file, expect: Some(plain), ..base.clone() });
                }
                let big = gen_data(rng, "random", 20_000);
                let tiny: Vec<Vec<u8>> = (0..5).map(|k| format!("-- tiny member number {k} --").into_bytes()).collect();
                let mut file = st_lzip(&big, dict, 1 << 20);
                let mut plain = big.clone();
                for t in &tiny {
                    file.extend(st_lzip(t, dict, 1 << 20));
                    plain.extend_from_slice(t);
                }
                v.push(Scenario { name: format!("lzipr-members-bigfirst-{size}-w{workers}"), kind: "lzipr", input: file, expect: Some(plain), ..base.clone() });
            }
            if (prop == "C08" || prop == "C09" || prop == "C10") && size > 0 {
                // total length an exact multiple of the unit (the tail unit is empty at finish), and flush directly
                // before finish: every call must return and the output must decode
                let whole = (data.len() / unit as usize).max(1) * unit as usize;
                let mut d2 = data.clone();
                d2.resize(whole, 0x41);
                for k in ["lzma2w", "lzipw"] {
                    v.push(Scenario { name: format!("{k}-exactunits-{size}-w{workers}"), kind: k, input: d2.clone(), writes: vec![whole / 2, whole - whole / 2], ..base.clone() });
                    v.push(Scenario { name: format!("{k}-flushfinish-{size}-w{workers}"), kind: k, input: data.clone(), writes: vec![data.len()], flush_at: Some(0), ..base.clone() });
                    // flush() on a writer that has not been given a byte yet (an empty write first), then the data
                    v.push(Scenario { name: format!("{k}-flushfirst-{size}-w{workers}"), kind: k, input: data.clone(), writes: vec![0, data.len()], flush_at: Some(0), ..base.clone() });
                }
            }
            if (prop == "C08" || prop == "C10") && size > 0 {
                // preset dictionary: MT writer over several units -> ST reader; ST writer -> MT reader
                // (taken from the second unit's content, so that a unit compressed against it would really use it)
                let preset: Vec<u8> = if data.len() > 8000 { data[4500..7500].to_vec() } else { data.iter().take(3000).cloned().collect() };
                v.push(Scenario { name: format!("lzma2w-preset-{size}-w{workers}"), kind: "lzma2w", input: data.clone(), writes: vec![data.len()], preset: Some(preset.clone()), ..base.clone() });
                let stp = {
                    let mut lo = lz_opts(dict);
                    lo.preset_dict = Some(preset.clone().into());
                    let mut opts = LZMA2Options { lzma_options: lo, chunk_size: None };
                    opts.set_chunk_size(NonZeroU64::new(unit));
                    let mut w = LZMA2Writer::new(Vec::new(), opts);
                    w.write_all(&data).unwrap();
                    w.finish().unwrap()
                };
                v.push(Scenario { name: format!("lzma2r-preset-{size}-w{workers}"), kind: "lzma2r", input: stp, expect: Some(data.clone()), preset: Some(preset), ..base.clone() });
            }
            if (prop == "C09" || prop == "C10") && size > 0 {
                // out-of-range options reach the workers (LZIPWriterMT::new does not validate): the error must come
                // back from a call, and no call may block; less than one unit (finish reaches recv at once) and several
                for k in ["lzma2w", "lzipw"] {
                    for (tag, n) in [("small", 1000usize.min(data.len())), ("all", data.len())] {
                        v.push(Scenario { name: format!("{k}-badnice-{tag}-{size}-w{workers}"), kind: k, input: data[..n].to_vec(), writes: vec![n], nice: Some(5), ..base.clone() });
                        v.push(Scenario { name: format!("{k}-badnice-flush-{tag}-{size}-w{workers}"), kind: k, input: data[..n].to_vec(), writes: vec![n], flush_at: Some(0), nice: Some(5), ..base.clone() });
                    }
                }
            }
            if prop == "C10" {
                for drop_at in [0usize, 1, 3] {
                    v.push(Scenario { name: format!("lzma2r-drop{drop_at}-{size}-w{workers}"), kind: "lzma2r", input: l2.clone(), expect: Some(data.clone()), reads_before_drop: Some(drop_at), ..base.clone() });
                    v.push(Scenario { name: format!("lzipr-drop{drop_at}-{size}-w{workers}"), kind: "lzipr", input: lz.clone(), expect: Some(data.clone()), reads_before_drop: Some(drop_at), ..base.clone() });
                }
                let parts = { let (_, p) = gen_partition(rng, data.len()); p };
                v.push(Scenario { name: format!("lzma2w-dropnofinish-{size}-w{workers}"), kind: "lzma2w", input: data.clone(), writes: parts.clone(), finish: false, ..base.clone() });
                // several units, flush (every worker idle), exactly one more unit, then drop without finish: the
                // queue is non-empty at close() while other workers still sleep
                if data.len() >= 2 * unit as usize + 10 {
                    let first = data.len() - unit as usize - 1;
                    for k in ["lzma2w", "lzipw"] {
                        v.push(Scenario { name: format!("{k}-flush-one-drop-{size}-w{workers}"), kind: k, input: data.clone(), writes: vec![first, unit as usize + 1], finish: false, flush_at: Some(0), ..base.clone() });
                    }
                }
                v.push(Scenario { name: format!("lzipw-dropnofinish-{size}-w{workers}"), kind: "lzipw", input: data.clone(), writes: parts, finish: false, ..base.clone() });
            }
            if prop == "C09" || prop == "C10" {
                // corrupt / truncated inputs: the call must return an error, never block
                let mut muts: Vec<(String, Vec<u8>, &'static str)> = Vec::new();
                if l2.len() > 10 {
                    let mut m = l2.clone(); let p = rng.range(6, (l2.len() - 2) as u64) as usize; m[p] ^= 0x55; muts.push((format!("flip@{p}"), m, "lzma2r"));
                    muts.push(("trunc-last".into(), l2[..l2.len() - 1].to_vec(), "lzma2r"));
                    let p = rng.range(1, (l2.len() - 1) as u64) as usize; muts.push((format!("trunc@{p}"), l2[..p].to_vec(), "lzma2r"));
                }
                muts.push(("empty".into(), vec![], "lzma2r"));
                muts.push(("badcontrol".into(), vec![0x33, 0, 0], "lzma2r"));
                if lz.len() > 30 {
                    let mut m = lz.clone(); let p = rng.range(7, (lz.len() - 21) as u64) as usize; m[p] ^= 0x55; muts.push((format!("flip@{p}"), m, "lzipr"));
                    let mut m = lz.clone(); let l = m.len(); m[l - 20] ^= 1; muts.push(("crcflip".into(), m, "lzipr"));
                }
                muts.push(("empty".into(), vec![], "lzipr"));
                // a zero member_size in the trailer of a member that is not the last one (the backward scan must not stall)
                {
                    let mut ends = vec![];
                    let mut end = lz.len();
                    while end >= 26 {
                        let ms = u64::from_le_bytes(lz[end - 8..end].try_into().unwrap()) as usize;
                        if ms == 0 || ms > end { break; }
                        ends.push(end);
                        end -= ms;
                    }
                    if ends.len() >= 2 {
                        let e = ends[ends.len() - 1];
                        let mut m = lz.clone();
                        for b in &mut m[e - 8..e] { *b = 0; }
                        muts.push(("member-size-zero".into(), m, "lzipr"));
                    }
                }
                for (mn, m, k) in muts {
                    // raw LZMA2 carries no checksum: a flipped bit (e.g. inside a stored chunk) may decode
                    let may_ok = k == "lzma2r" && mn.starts_with("flip");
                    // a flip the member's CRC / size fields cannot see changes nothing (e.g. in the unread tail of
                    // the range coder's flush bytes): success with exactly the original data is not a violation
                    let ok_only_with = if k == "lzipr" && mn.contains("flip") { Some(data.clone()) } else { None };
                    v.push(Scenario { name: format!("{k}-{mn}-{size}-w{workers}"), kind: k, input: m, expect: None, may_ok, ok_only_with, ..base.clone() });
                }
            }
        }
    }
    if prop == "C08" {
        // an LZMA chunk with the maximal compressed size field (0xFFFF = 65536 bytes)
        if let Some((stream, data)) = lzma2_max_compressed_chunk(rng.next()) {
            for workers in [1u32, 2] {
                v.push(Scenario {
                    name: format!("lzma2r-maxchunk-w{workers}"), kind: "lzma2r", input: stream.clone(), expect: Some(data.clone()), workers, dict: 1 << 16, unit: 0,
                    reads_before_drop: None, writes: vec![], finish: true, flush_at: None, may_ok: false, ok_only_with: None, preset: None, nice: None, short_reads: 0,
                });
            }
        }
    }
    v
}

fn main() {
    let args: Vec<String> = std::env::args().collect();
    if args.len() < 5 {
        eprintln!("usage: vhmt <C08|C09|C10|C12MT> <quick|thorough> <seed> <outdir>");
        std::process::exit(2);
    }
    let prop = args[1].as_str();
    let thorough = args[2] == "thorough";
    let seed: u64 = args[3].parse().unwrap_or(1);
    let outdir = &args[4];
    let mut rng = Rng::new(seed ^ fnv(prop.as_bytes()));
    let mut rep = Report::new(prop, "each case = (scenario, scheduler, schedule seed); scenario = MT type x input x worker count x caller history; executions explored by shuttle's random and PCT schedulers; non-trivial = scenario with data; distinct = distinct scenario");
    // a search run (the check re-invokes the engine with seeds >= 1000 after a broken obligation) explores more schedules
    let base_iters: usize = if thorough { 3000 } else if seed >= 1000 { 1500 } else { 150 };
    let scs = scenarios(prop, &mut rng, thorough);
    install_quiet_panic_hook();
    // trace validation: how many executions per (scenario, scheduler) are replayed through the LTS
    let trace_cap: usize = std::env::var("VERIF_MT_TRACES").ok().and_then(|v| v.parse().ok()).unwrap_or(if thorough { 12 } else { 3 });
    let mut traces_total = 0usize;
    for sc in &scs {
        // scenarios that depend on a narrow window (close() racing a just-woken worker) get more schedules
        let iters = if sc.name.contains("flush-one-drop") { base_iters * 8 } else if sc.name.contains("stored-then-lzma") { (base_iters / 6).max(10) } else { base_iters };
        for sched in ["random", "pct"] {
            let obs = Arc::new(Mutex::new(Obs::default()));
            let sc2 = sc.clone();
            let obs2 = obs.clone();
            let sseed = rng.next();
            // writers: remember the first execution's output hash to compare across schedules
            let first_hash: Arc<Mutex<Option<u64>>> = Arc::new(Mutex::new(None));
            let _ = &first_hash;
            let tcfg = if prop != "C12MT" { trace_cfg(sc) } else { None };
            let sink = Arc::new(Mutex::new(TraceSink { every: (iters / trace_cap.max(1)).max(1), cap: if tcfg.is_some() { trace_cap } else { 0 }, execs: 0, recording: false, traces: vec![] }));
            let sink2 = sink.clone();
            let result = catch_unwind(AssertUnwindSafe(|| {
                let f = move || {
                    sink2.lock().unwrap().turn(true);
                    run_scenario(&sc2, &obs2)
                };
                if sched == "random" {
                    let runner = shuttle::Runner::new(RandomScheduler::new_from_seed(sseed, iters), Default::default());
                    runner.run(f);
                } else {
                    let runner = shuttle::Runner::new(PctScheduler::new_from_seed(sseed, 3, iters), Default::default());
                    runner.run(f);
                }
            }));
            {
                let mut sk = sink.lock().unwrap_or_else(|e| e.into_inner());
                if result.is_ok() {
                    sk.turn(false);
                } else {
                    let _ = lzma_rust2::verif_hooks::mt_trace_take();
                }
                if let Some(tc) = &tcfg {
                    for t in sk.traces.drain(..) {
                        let req = match tc.strip_prefix("W ") {
                            Some(w) => format!("mt.wtrace {w} ev={}", t.join(",")),
                            None => format!("mt.trace {tc} ev={}", t.join(",")),
                        };
                        rep.model(req, format!("ok events={}", t.len()));
                        rep.count(&format!("trace.{}", sc.kind));
                        traces_total += 1;
                    }
                }
            }
            let o = obs.lock().unwrap().clone();
            rep.evaluations += o.runs.max(1) - 1;
            let detail = || json!({"scenario": sc.name, "kind": sc.kind, "workers": sc.workers, "input_len": sc.input.len(), "scheduler": sched, "schedule_seed": sseed, "iterations": iters, "input_hex": if sc.input.len() <= 64 { hex(&sc.input) } else { format!("fnv:{}", fnv(&sc.input)) }});
            rep.case(format!("{}:{}", sc.name, sched), !sc.input.is_empty(), || detail());
            rep.count(&format!("kind.{}", sc.kind));
            if let Err(p) = result {
                let msg = if let Some(s) = p.downcast_ref::<String>() { s.clone() } else if let Some(s) = p.downcast_ref::<&str>() { s.to_string() } else { "panic".into() };
                if msg.contains("did not exercise any concurrency") {
                    // no thread was spawned in this scenario (e.g. drop before the first read): nothing to explore
                    continue;
                }
                let class = if msg.contains("deadlock") { "deadlock" } else { "panic" };
                let mut d = detail();
                d["shuttle_message"] = json!(msg.chars().take(1500).collect::<String>());
                rep.fail(&format!("mt-{class}:{}:{}", sc.kind, sc.name.split('-').nth(1).unwrap_or("")), &format!("{} under shuttle: {}", class, msg.chars().take(200).collect::<String>()), d);
            }
            if let Some(w) = &o.wrong_output {
                rep.fail(&format!("mt-wrong-output:{}", sc.kind), w, detail());
            }
            if o.unexpected_ok {
                rep.fail(&format!("mt-accepts-corrupt:{}:{}", sc.kind, sc.name.split('-').nth(1).unwrap_or("")), "corrupt / truncated input was read to the end without an error", detail());
            }
            if let Some(e) = &o.unexpected_err {
                rep.fail(&format!("mt-unexpected-error:{}", sc.kind), e, detail());
            }
        }
    }
    rep.notes.push(format!("seed={seed} tier={} scenarios={} traces_replayed_through_the_LTS={traces_total}", args[2], scs.len()));
    rep.write(outdir);
    println!("{} evaluations={} distinct={} failures={}", prop, rep.evaluations, rep.signatures.len(), rep.failures.len());
}
